(* C04 — Beam search returns distinct, correctly scored, best-first paths per element.
   Property theorems only: each is closed by [exact <lemma>] and followed by
   [Print Assumptions].  The harness re-checks this file on every run.

   Reading guide.  [search topk calc dstate V width eos fin_all pad max_iters inits] is the
   model of BeamSearch.forward (Model.v): [topk] any function meeting [topk_ok] (sorted,
   duplicate-free, dominates the rest: whatever tie-break torch uses), [calc] any language
   model meeting [lm_ok] (its answer at position idx depends on the tokens before idx only;
   V entries per row) with an arbitrary state type threaded through the flat [prev] list,
   [inits] the batch of initial states (length 1 when batch_size is unset).
   [beams_of ...] = [fst (fst (search ...))] : one list of [width] slots per batch element;
   [vpath sl] = the first [len sl] cells of the slot's column (what y[:y_lens] denotes),
   [sc sl] = its score, [None] = -inf.  [chain calc s0 p] is the language model run afresh
   on [p] from state [s0], adding up the log-probability of each token of [p]. *)
From Coq Require Import List ZArith Arith Bool.
From PV Require Import C04.Model C04.Spec C04.Topk C04.Abstract C04.Refine C04.Proofs.
Import ListNotations.

(* result shape: one beam per element, [width] slots each, every length within the tensor *)
Theorem c04_beam_shape : forall (state : Type) topk (calc : list Z -> state -> nat -> list score * state)
    dstate V width eos fin_all pad,
  topk_ok topk -> lm_ok calc V -> 1 <= V -> 1 <= width -> forall max_iters inits,
  length (beams_of topk calc dstate V width eos fin_all pad max_iters inits) = length inits /\
  forall beam, In beam (beams_of topk calc dstate V width eos fin_all pad max_iters inits) ->
    length beam = width /\ forall sl, In sl beam -> len sl <= length (col sl).
Proof. exact @shape. Qed.
Print Assumptions c04_beam_shape.

(* "its reported log-probability equals the model's own chained log-probability of exactly
   that token sequence" (a sequence over the vocabulary, as long as the reported length) *)
Theorem c04_beam_scores_chain : forall (state : Type) topk (calc : list Z -> state -> nat -> list score * state)
    dstate V width eos fin_all pad,
  topk_ok topk -> lm_ok calc V -> 1 <= V -> 1 <= width -> forall max_iters inits n,
  n < length inits ->
  forall sl z, In sl (nth n (beams_of topk calc dstate V width eos fin_all pad max_iters inits) []) ->
  sc sl = Some z ->
  chain calc (nth n inits dstate) (vpath sl) = Some z /\ in_vocab V (vpath sl) /\
  length (vpath sl) = len sl.
Proof. exact @scores_chain. Qed.
Print Assumptions c04_beam_scores_chain.

(* "every returned path with a finite score ... stops at its first end-of-sequence (counted
   in its length)": no eos before the last valid position *)
Theorem c04_beam_eos_first : forall (state : Type) topk (calc : list Z -> state -> nat -> list score * state)
    dstate V width eos fin_all pad,
  topk_ok topk -> lm_ok calc V -> 1 <= V -> 1 <= width -> forall max_iters inits n,
  n < length inits ->
  forall sl, In sl (nth n (beams_of topk calc dstate V width eos fin_all pad max_iters inits) []) ->
  sfin (sc sl) = true -> eos_first eos (vpath sl).
Proof. exact @eos_is_first. Qed.
Print Assumptions c04_beam_eos_first.

(* "every returned path with a finite score is distinct within its beam" *)
Theorem c04_beam_paths_distinct : forall (state : Type) topk (calc : list Z -> state -> nat -> list score * state)
    dstate V width eos fin_all pad,
  topk_ok topk -> lm_ok calc V -> 1 <= V -> 1 <= width -> forall max_iters inits n,
  n < length inits ->
  let beam := nth n (beams_of topk calc dstate V width eos fin_all pad max_iters inits) [] in
  forall i j, i < width -> j < width -> i <> j ->
  sfin (sc (nth i beam dslot)) = true -> sfin (sc (nth j beam dslot)) = true ->
  vpath (nth i beam dslot) <> vpath (nth j beam dslot).
Proof. exact @paths_distinct. Qed.
Print Assumptions c04_beam_paths_distinct.

(* "paths are ordered best first and unusable slots carry minus infinity at the end" *)
Theorem c04_beam_sorted_inf_last : forall (state : Type) topk (calc : list Z -> state -> nat -> list score * state)
    dstate V width eos fin_all pad,
  topk_ok topk -> lm_ok calc V -> 1 <= V -> 1 <= width -> forall max_iters inits n,
  n < length inits ->
  let beam := nth n (beams_of topk calc dstate V width eos fin_all pad max_iters inits) [] in
  sorted_desc (map sc beam) /\
  forall i j, i <= j -> j < width -> sc (nth i beam dslot) = None -> sc (nth j beam dslot) = None.
Proof. exact @sorted_inf_last. Qed.
Print Assumptions c04_beam_sorted_inf_last.

(* "what is returned for one batch element is what searching that element alone returns,
   however early or late the other elements finish": for EVERY batch [inits], element n of the
   batched search and the search of [nth n inits] alone return the same valid prefixes and
   scores, slot by slot (the batched loop freezes finished elements, shares the decision to
   grow y, and indexes one flat state list; none of it leaks between elements) *)
Theorem c04_beam_batch_independent : forall (state : Type) topk (calc : list Z -> state -> nat -> list score * state)
    dstate V width eos fin_all pad,
  topk_ok topk -> lm_ok calc V -> 1 <= V -> 1 <= width -> forall max_iters inits n,
  n < length inits ->
  map vslot (nth n (beams_of topk calc dstate V width eos fin_all pad max_iters inits) [])
  = map vslot (nth 0 (beams_of topk calc dstate V width eos fin_all pad max_iters [nth n inits dstate]) []).
Proof. exact @batch_independent. Qed.
Print Assumptions c04_beam_batch_independent.

(* "When the width is at least the number of complete sequences and all paths are run to
   completion the result is the full set of them."
   [eos_ok]: eos is a token of the vocabulary (the constructor checks it);
   [to_completion]: finish_all_paths is set, or eos is unset;
   [wide]: every duplicate-free list of complete sequences (for step limit max_iters) has at most
   [width] members;  [complete]: over the vocabulary, and either ended by its first eos within
   max_iters tokens, or max_iters tokens without eos.  Every complete sequence the model gives a
   non-zero probability is then returned, with its chained score (a zero-probability sequence
   cannot be told from an unusable slot, as the documentation warns). *)
Theorem c04_beam_exhaustive_when_wide : forall (state : Type) topk (calc : list Z -> state -> nat -> list score * state)
    dstate V width eos fin_all pad,
  topk_ok topk -> lm_ok calc V -> 1 <= V -> 1 <= width -> forall max_iters inits n,
  n < length inits ->
  forall p, eos_ok V eos -> wide V width eos max_iters -> to_completion eos fin_all ->
  complete V eos max_iters p -> sfin (chain calc (nth n inits dstate) p) = true ->
  exists sl, In sl (nth n (beams_of topk calc dstate V width eos fin_all pad max_iters inits) []) /\
             vpath sl = p /\ sc sl = chain calc (nth n inits dstate) p.
Proof. exact @exhaustive_wide. Qed.
Print Assumptions c04_beam_exhaustive_when_wide.

(* the backbone: element n of the batched model, seen through valid prefixes and scores, IS the
   junk-free single-element search [asearch] (Abstract.v) started from the n-th initial state;
   and one step of that search preserves the loop invariant [AInv]: beam full width; every path
   over the vocabulary; a live finite-score path has length t, no eos, carries the state the
   language model reaches on exactly that path; a finished one ends in its first eos; scores
   are chained sums, sorted, and finite-score paths pairwise distinct *)
Theorem c04_search_refines : forall (state : Type) topk (calc : list Z -> state -> nat -> list score * state)
    dstate V width eos fin_all pad,
  topk_ok topk -> lm_ok calc V -> 1 <= V -> 1 <= width -> forall max_iters inits,
  let out := fst (fst (search topk calc dstate V width eos fin_all pad max_iters inits)) in
  length out = length inits /\
  forall n, n < length inits ->
    map vslot (nth n out []) =
    map (vaslot (state:=state)) (asearch topk calc dstate V width eos fin_all max_iters (nth n inits dstate)) /\
    forall sl, In sl (nth n out []) -> len sl <= length (col sl).
Proof. exact @search_refines. Qed.
Print Assumptions c04_search_refines.

Theorem c04_beam_invariant : forall (state : Type) topk (calc : list Z -> state -> nat -> list score * state)
    dstate V width eos,
  topk_ok topk -> lm_ok calc V -> 1 <= V -> 1 <= width -> forall s0 t beam,
  AInv calc dstate V width eos s0 t beam ->
  AInv calc dstate V width eos s0 (S t) (astep topk calc dstate V width eos t beam).
Proof. exact @AInv_step. Qed.
Print Assumptions c04_beam_invariant.

(* [wide] follows from the count the checker computes: the enumeration [complete_seqs]
   (Spec.v) contains every complete sequence *)
Theorem c04_wide_of_count : forall V width eos T,
  length (complete_seqs V eos T) <= width -> wide V width eos T.
Proof. exact wide_of_count. Qed.
Print Assumptions c04_wide_of_count.

(* the executable topk of the correspondence (stable) meets the specification assumed above *)
Theorem c04_topk_stable_ok : topk_ok topk_stable.
Proof. exact topk_stable_ok. Qed.
Print Assumptions c04_topk_stable_ok.

(* the stateful language model of the correspondence meets [lm_ok] *)
Theorem c04_hash_lm_ok : forall a b c M V table,
  Forall (fun r => length r = V) table -> lm_ok (hash_calc a b c M V table) V.
Proof. exact hash_calc_lm_ok. Qed.
Print Assumptions c04_hash_lm_ok.

(* non-vacuity: a concrete stateful LM, a batch of two initial states whose searches finish at
   different steps, width 2 < number of complete sequences (pruning happens) *)
Example c04_nonvacuous :
  topk_ok topk_stable /\ lm_ok ex_lm 2 /\
  map (map vslot) (beams_of topk_stable ex_lm 0%Z 2 2 (Some 1%Z) true (-100)%Z 3 [0%Z; 1%Z])
  = [[([0%Z; 1%Z], Some (-5)%Z); ([1%Z], Some (-10)%Z)];
     [([1%Z], Some (-2)%Z); ([0%Z; 0%Z; 1%Z], Some (-17)%Z)]].
Proof. exact ex_nonvacuous. Qed.

(* ... and the hypotheses of the exhaustiveness theorem are met by a concrete instance *)
Example c04_wide_nonvacuous :
  wide 2 3 (Some 1%Z) 2 /\ eos_ok 2 (Some 1%Z) /\ to_completion (Some 1%Z) true /\
  complete 2 (Some 1%Z) 2 [0%Z; 1%Z] /\ sfin (chain ex_lm 0%Z [0%Z; 1%Z]) = true.
Proof. exact ex_wide. Qed.

(* ---- the tie to the source text (beam_search_advance) -------------------------------------------
   PV.Gen.C04Src.bsa_body is regenerated from /repo/src/pydrobert/torch/_decoding.py on every run
   (harness/py2coq/translate.py: the WHOLE body of `beam_search_advance`, node for node; the decorator
   @script is outside it - TorchScript is not modelled); PV.MiniPy.Interp is the semantics of the
   translated subset; SrcRun.ext04 gives the torch calls (dim, shape, size, unsqueeze, broadcasting +,
   flatten, topk, trunc_divide, %, expand, gather, cat, new_full / new_zeros / new_empty / ones, max,
   item, !=, any, scatter) the meaning defined in PV.MiniTorch.OpsC04 (exact scores, -inf, integers;
   at most 3 dimensions).  torch.topk IS the model's executable stable top-k there: torch documents its
   tie-break as unspecified, so it is an oracle, validated on every run by the harness (source_tie in
   harness/props/c04.py runs the interpreted source against torch); the theorems above assume only
   topk_ok of it.  SrcRun.advance_vars encodes the model's beams as the five arguments:
   log_probs_t (N, Kp, V), width, log_probs_prev (N, Kp), y_prev (S, N, Kp), y_prev_lens (N, Kp) or None
   (has_lens = false).  Tie.wf_adv: N, Kp, V >= 1, all rows Kp wide, all columns S high, all score rows
   V wide, every length <= S when lengths are given and S > 0. *)
From PV Require MiniPy.Syntax MiniPy.Interp MiniTorch.OpsC04 Gen.C04Src C04.SrcRun C04.TieRun C04.Tie.

(* for EVERY well-formed input the interpreted source returns the four tensors that encode the model's
   rows - next prefixes (every cell, also those beyond the lengths), lengths, scores, source indices -
   and raises RuntimeError exactly where the model answers None (width 0; non-zero lengths at t = 0;
   torch.cat of a height-S y_next with the height-(S+1) filler) *)
Theorem c04_source_advance_is_model : forall V width S has_lens beams logp,
  Tie.wf_adv V S has_lens beams logp ->
  exists st,
    Interp.run SrcRun.ext04 C04Src.bsa_body (SrcRun.advance_vars V width S has_lens beams logp) =
    match advance_fn topk_stable V width S has_lens beams logp with
    | Some rows => Interp.Ok (SrcRun.enc_rows (Tie.out_height S has_lens beams) width rows) st
    | None => Interp.Exc SrcRun.runtime_error st
    end.
Proof. exact Tie.advance_tie. Qed.
Print Assumptions c04_source_advance_is_model.

(* the same in the executable form the harness evaluates on the advance cases of every run: the
   interpreted source, its four tensors read back as rows, IS the model, outcome for outcome *)
Theorem c04_source_advance_refines_model : forall V width S has_lens beams logp,
  Tie.wf_adv V S has_lens beams logp ->
  SrcRun.src_advance V width S has_lens beams logp = Some (advance_fn topk_stable V width S has_lens beams logp).
Proof. exact Tie.src_advance_tie. Qed.
Print Assumptions c04_source_advance_refines_model.

Theorem c04_source_advance_check_is_check : forall V width S has_lens beams logp impl,
  Tie.wf_adv V S has_lens beams logp ->
  SrcRun.src_advance_check V width S has_lens beams logp impl = check_advance V width S has_lens beams logp impl.
Proof. exact Tie.src_advance_check_is_check. Qed.
Print Assumptions c04_source_advance_check_is_check.

(* below the model: for ALL tensors (a 3-D log_probs_t and y_prev of any sizes, log_probs_prev and
   y_prev_lens of any shape, any data, any integer width) the interpreted source and the straight-line
   tensor program TieRun.adv_tensor agree - same four tensors, RuntimeError at the same shape checks,
   outside the modelled domain together *)
Theorem c04_source_advance_is_tensor_program : forall lpt w lpp y lens N Kp V tm1 Ny Ky,
  OpsC04.vshape lpt = [N; Kp; V] -> OpsC04.vshape y = [tm1; Ny; Ky] ->
  TieRun.sim (Interp.run SrcRun.ext04 C04Src.bsa_body (TieRun.vars0 lpt w lpp y lens))
             (TieRun.adv_tensor lpt w lpp y lens).
Proof. exact TieRun.run_is_adv. Qed.
Print Assumptions c04_source_advance_is_tensor_program.

(* `if log_probs_t.dim() != 3: raise RuntimeError(...)`, before anything else *)
Theorem c04_source_advance_raises_not_3d : forall lpt w lpp y lens,
  length (OpsC04.vshape lpt) <> 3 ->
  Interp.run SrcRun.ext04 C04Src.bsa_body (TieRun.vars0 lpt w lpp y lens)
  = Interp.Exc SrcRun.runtime_error (Interp.mkState (TieRun.vars0 lpt w lpp y lens) []).
Proof. exact Tie.advance_lpt_not_3d. Qed.
Print Assumptions c04_source_advance_raises_not_3d.

(* composed with c04_topk_stable_ok: a statement purely about the interpreted source - whatever it
   returns on a well-formed input, read back as rows: one row per batch element, [width] slots whose
   scores are in best-first order (-inf, the unusable slots, at the end), [width] source indices that
   all point into the old beam *)
Theorem c04_source_advance_sorted : forall V width S has_lens beams logp rows,
  Tie.wf_adv V S has_lens beams logp ->
  SrcRun.src_advance V width S has_lens beams logp = Some (Some rows) ->
  length rows = length beams /\
  forall r, In r rows ->
    length (fst r) = width /\ length (snd r) = width /\
    sorted_desc (map sc (fst r)) /\ forall s, In s (snd r) -> s < length (hd [] beams).
Proof. exact Tie.source_advance_sorted. Qed.
Print Assumptions c04_source_advance_sorted.

(* non-vacuity: a well-formed input (two batch elements, beams of two ragged prefixes of height 2 so that
   y must grow, vocabulary 2, width 3 < 4 candidates, one -inf prefix), the interpreted source run on it
   (vm_compute), and what it returns *)
Example c04_source_advance_nonvacuous :
  Tie.wf_adv 2 2 true Tie.ex_beams Tie.ex_logp /\
  SrcRun.src_advance 2 3 2 true Tie.ex_beams Tie.ex_logp
    = Some (advance_fn topk_stable 2 3 2 true Tie.ex_beams Tie.ex_logp) /\
  option_map (map (fun r => map canon_adv (combine (fst r) (snd r))))
    (advance_fn topk_stable 2 3 2 true Tie.ex_beams Tie.ex_logp)
  = Some [[Some ([1; 0; 1]%Z, 3, (-65)%Z, 0); Some ([1; 0; 0]%Z, 3, (-67)%Z, 0); Some ([0; 0]%Z, 2, (-130)%Z, 1)];
          [Some ([1; 1; 1]%Z, 3, (-4)%Z, 1); Some ([1; 1; 0]%Z, 3, (-7)%Z, 1); None]].
Proof. exact Tie.ex_nonvacuous_src. Qed.

(* ---- the SECOND tie to the source text (BeamSearch.forward, _to_width, update_log_probs_for_step) ---------------------
   PV.Gen.C04BSrc is regenerated from /repo/src/pydrobert/torch/_decoding.py on every run: tw_body (= _to_width, whole),
   ulp_body (= update_log_probs_for_step, whole) and marked statement blocks of forward(): fw_init (everything before the
   loop), fw_t, fw_mask_on / fw_mask_off (the eos_mask / done_mask computation), fw_rest (`y_prev_ = ...` up to
   `prev_width = self.width`: LM call, eos mass re-allocation, the call of beam_search_advance, length decrement, state
   re-ordering, the freeze through _to_width / torch.where), fw_final (epilogue).  The loop contains `break`, which MiniPy has
   no constructor for: `for t in range(max_iters)`, the test `if self.eos is not None and t` and `if done_mask.all(): break`
   are HAND-WRITTEN in SrcRunB.fw_iter / src_loop (theorems that depend on them are named _partial).  SrcRunB.extB: calls of
   beam_search_advance / self._to_width / self.update_log_probs_for_step RUN the translated callee (under SrcRun.ext04); the
   language model (calc_idx_log_probs + log_softmax, extract_by_src, update_input) is an oracle [calc] as in Model.v; tensor
   operations = PV.MiniTorch.OpsC04 + OpsC04B.  The theorems below are the layer "interpreted source = straight-line tensor
   program, for EVERY tensor of the stated rank and every oracle" (TieRunB.simc/simv/simi: same results, RuntimeError together,
   outside the modelled domain together) + `_to_width` against Model.to_width on full-width beams; the algebra that evaluates
   TieIterB.iter_tensor on the encoding of a model state to the encoding of Model.step is NOT proved (notes/C04_tie_report.md);
   the harness evaluates SrcRunB.src_search_check / src_search_agrees (interpreted source vs torch, and vs Model.search
   exactly) on the search cases of every run. *)
From PV Require MiniTorch.OpsC04B Gen.C04BSrc C04.SrcRunB C04.TieRunB C04.TieIterB C04.TieB.

(* BeamSearch._to_width (whole function), any 3-D y_prev, any log_probs_prev / y_prev_lens: the tensor program TieRunB.tw_tensor
   (pad with -inf / 0 columns; or topk + gather by source index; or nothing) *)
Theorem c04_source_to_width_is_tensor_program : forall V width eos fin_all pad y lpp lens S N pw,
  OpsC04.vshape y = [S; N; pw] ->
  TieRunB.simv TieRunB.is3
    (Interp.run SrcRun.ext04 C04BSrc.tw_body
       (combine C04BSrc.tw_body_params [SrcRunB.self_val V width eos fin_all pad; SrcRun.encv y; SrcRun.encv lpp; SrcRun.encv lens]))
    (TieRunB.tw_tensor (Z.of_nat width) y lpp lens).
Proof. exact TieRunB.run_is_tw. Qed.
Print Assumptions c04_source_to_width_is_tensor_program.

(* COMPOSED with Model.to_width: on beams that already have [width] slots per element (every call made from the loop) the
   interpreted _to_width returns the tensors that encode Model.to_width's beams *)
Theorem c04_source_to_width_is_model_full : forall V width eos fin_all pad S beams,
  Forall (fun row => length row = width) beams ->
  exists st, Interp.run SrcRun.ext04 C04BSrc.tw_body (TieB.tw_vars V width eos fin_all pad S width beams)
             = Interp.Ok (TieB.enc_beams S width (map (to_width topk_stable width S) beams)) st.
Proof. exact TieB.to_width_tie_full. Qed.
Print Assumptions c04_source_to_width_is_model_full.

(* BeamSearch.update_log_probs_for_step (whole function) returns its first two tensor arguments *)
Theorem c04_source_update_log_probs_is_identity : forall self a b c d e,
  Interp.run SrcRun.ext04 C04BSrc.ulp_body (combine C04BSrc.ulp_body_params [self; a; b; c; d; e])
  = Interp.Ok (Syntax.VTuple [a; b]) (Interp.mkState (combine C04BSrc.ulp_body_params [self; a; b; c; d; e]) []).
Proof. exact TieRunB.run_is_ulp. Qed.
Print Assumptions c04_source_update_log_probs_is_identity.

(* the eos_mask / done_mask block (eos set, t > 0): permute, gather at (len - 1).clamp(min = 0), == eos, & (len > 0);
   all(1, keepdim) or [..., :1] - and nothing else changes ([TieRunB.masks_post]) *)
Theorem c04_source_mask_on_is_tensor_program : forall calc isv bsv miv is0 V width eos fin_all pad N ev e pw y prev lpp lens pady rest tv,
  eos = Some e -> Interp.lookup TieIterB.v_t rest = Some tv ->
  TieRunB.simc (TieRunB.masks_post isv bsv miv is0 V width eos fin_all pad N ev pw y prev lpp lens pady tv)
    (Interp.exec (SrcRunB.extB calc) C04BSrc.fw_mask_on
       (Interp.mkState (TieRunB.live isv bsv miv is0 V width eos fin_all pad N pw y prev lpp lens pady rest) ev))
    (TieRunB.mask_on_tensor fin_all e y lens).
Proof. exact TieRunB.mask_on_run. Qed.
Print Assumptions c04_source_mask_on_is_tensor_program.

Theorem c04_source_mask_off_is_tensor_program : forall calc isv bsv miv is0 V width eos fin_all pad N ev pw y prev lpp lens pady rest tv,
  Interp.lookup TieIterB.v_t rest = Some tv ->
  TieRunB.simc (TieRunB.masks_post isv bsv miv is0 V width eos fin_all pad N ev pw y prev lpp lens pady tv)
    (Interp.exec (SrcRunB.extB calc) C04BSrc.fw_mask_off
       (Interp.mkState (TieRunB.live isv bsv miv is0 V width eos fin_all pad N pw y prev lpp lens pady rest) ev))
    (TieRunB.mask_off_tensor N pw).
Proof. exact TieRunB.mask_off_run. Qed.
Print Assumptions c04_source_mask_off_is_tensor_program.

(* the rest of the loop body, for every 3-D y_prev, every other tensor, every LM oracle: TieRunB.rest_tensor - clamp, LM call,
   eos re-allocation (realloc_tensor), the tensor program of beam_search_advance (TieRun.adv_tensor: the callee's translated
   text is run), pad row, length decrement, arange + next_src, extract_by_src, the freeze (freeze_tensor, through tw_tensor),
   and the new persistent variables ([TieRunB.rest_post]: y_prev, y_prev_lens, log_probs_prev, prev, prev_width = width) *)
Theorem c04_source_rest_is_tensor_program : forall calc isv bsv miv is0 V width eos fin_all pad N ev pw tv mask done y lpp lens pady prev rest a b c,
  OpsC04.vshape y = [a; b; c] ->
  Interp.lookup TieIterB.v_t rest = Some (SrcRun.encv tv) ->
  Interp.lookup TieIterB.v_eos_mask rest = Some (SrcRun.encv mask) ->
  Interp.lookup TieIterB.v_done_mask rest = Some (SrcRun.encv done) ->
  TieRunB.simc (TieRunB.rest_post isv bsv miv is0 V width eos fin_all pad N ev pady)
    (Interp.exec (SrcRunB.extB calc) C04BSrc.fw_rest
       (Interp.mkState (TieRunB.live isv bsv miv is0 V width eos fin_all pad N pw y prev lpp lens pady rest) ev))
    (TieRunB.rest_tensor calc V width eos N pw tv mask done y lpp lens pady prev).
Proof. exact TieRunB.rest_run. Qed.
Print Assumptions c04_source_rest_is_tensor_program.

(* one iteration of the loop = the hand-written glue SrcRunB.fw_iter over the translated blocks, from ANY variable state whose
   persistent part is [live ...] (whatever earlier iterations left in the other variables): TieIterB.iter_tensor; `break` = the
   signal "$break" with the persistent variables unchanged *)
Theorem c04_source_iteration_is_tensor_program_partial : forall calc isv bsv miv is0 V width eos fin_all pad N ev tz pw y prev lpp lens pady rest a b c,
  OpsC04.vshape y = [a; b; c] ->
  TieIterB.simi (TieRunB.rest_post isv bsv miv is0 V width eos fin_all pad N ev pady)
    (TieIterB.same_post isv bsv miv is0 V width eos fin_all pad N ev pw y prev lpp lens pady)
    (Interp.exec (SrcRunB.extB calc) SrcRunB.fw_iter
       (Interp.mkState (TieRunB.live isv bsv miv is0 V width eos fin_all pad N pw y prev lpp lens pady
                          (Interp.update TieIterB.v_t (Syntax.VInt tz) rest)) ev))
    (TieIterB.iter_tensor calc V width eos fin_all N tz pw y lpp lens pady prev).
Proof. exact TieIterB.iter_run. Qed.
Print Assumptions c04_source_iteration_is_tensor_program_partial.

(* the epilogue: _to_width, the squeezes when batch_size is None, the returned triple (y, y_lens, log_probs) *)
Theorem c04_source_final_is_tensor_program : forall calc isv bsv miv is0 V width eos fin_all pad N ev (batched : bool) pw y prev lpp lens pady rest a b c z,
  bsv = (if batched then Syntax.VInt z else Syntax.VNone) -> OpsC04.vshape y = [a; b; c] ->
  TieRunB.simc TieIterB.returns
    (TieIterB.as_normal
       (Interp.exec (SrcRunB.extB calc) C04BSrc.fw_final
          (Interp.mkState (TieRunB.live isv bsv miv is0 V width eos fin_all pad N pw y prev lpp lens pady rest) ev)))
    (TieIterB.final_tensor width batched y lpp lens).
Proof. exact TieIterB.final_run. Qed.
Print Assumptions c04_source_final_is_tensor_program.

(* non-vacuity: the whole interpreted forward() (fw_init, the hand-written loop over fw_t / masks / fw_rest, fw_final) on the
   instance of c04_nonvacuous (stateful LM, two elements finishing at different steps, width 2, eos 1, 3 steps) IS the model's
   search (vm_compute) *)
Example c04_source_search_partial_nonvacuous :
  SrcRunB.src_search ex_lm 2 2 (Some 1%Z) true (-100)%Z 3 false true [0%Z; 1%Z]
  = Some (search topk_stable ex_lm 0%Z 2 2 (Some 1%Z) true (-100)%Z 3 [0%Z; 1%Z]).
Proof. exact TieB.ex_search_src. Qed.

(* second tie, layer 2 for the eos_mask / done_mask block: on the tensors that ENCODE the model's beams (any batch size, any
   beam width >= 1, height >= 1, lengths within the height, step t > 0, eos set) the interpreted block leaves the persistent
   variables as they are and binds eos_mask[n, k] = Model.eos_at of slot (n, k) and done_mask[n, 0] = Model.done_of of beam n
   (finish_all_paths: all slots finished; else: the best slot finished) *)
From PV Require MiniTorch.LemmasC04B C04.TieMaskB.

Theorem c04_source_mask_on_is_model : forall calc isv bsv miv is0 V width fin_all pad ev e t S pw beams prev lpp pady rest tv,
  t <> 0 -> 1 <= S -> 1 <= pw ->
  Forall (fun row => length row = pw) beams -> Forall (Forall (fun s => len s <= S)) beams ->
  Interp.lookup TieIterB.v_t rest = Some tv ->
  let N := length beams in
  exists rest',
    Interp.exec (SrcRunB.extB calc) C04BSrc.fw_mask_on
      (Interp.mkState (TieRunB.live isv bsv miv is0 V width (Some e) fin_all pad N pw (SrcRun.enc_y S N pw beams) prev lpp
                         (SrcRun.enc_lens N pw beams) pady rest) ev)
    = Interp.Ok Interp.CNormal
      (Interp.mkState (TieRunB.live isv bsv miv is0 V width (Some e) fin_all pad N pw (SrcRun.enc_y S N pw beams) prev lpp
                         (SrcRun.enc_lens N pw beams) pady rest') ev)
    /\ Interp.lookup TieIterB.v_eos_mask rest'
       = Some (SrcRun.encv (OpsC04.tabv2 N pw (fun n k => Syntax.VBool (eos_at (Some e) t (TieMaskB.slot_at beams n k)))))
    /\ Interp.lookup TieIterB.v_done_mask rest'
       = Some (SrcRun.encv (OpsC04.tabv2 N 1 (fun n _ => Syntax.VBool (done_of (Some e) fin_all t (nth n beams [])))))
    /\ Interp.lookup TieIterB.v_t rest' = Some tv.
Proof. exact TieMaskB.mask_on_tie. Qed.
Print Assumptions c04_source_mask_on_is_model.

(* COMPOSED with the model-side lemma Refine.eos_at_pfin, so that it speaks about the paths only: the mask tensor the
   interpreted source binds marks exactly the slots whose VALID path (vpath: the first y_lens cells of the column) is
   non-empty and ends in eos, at every step t > 0 (Abstract.pfin) *)
Theorem c04_source_mask_marks_finished_paths : forall e t pw beams,
  Forall (Forall (fun s => len s <= length (col s))) beams ->
  OpsC04.tabv2 (length beams) pw (fun n k => Syntax.VBool (eos_at (Some e) t (TieMaskB.slot_at beams n k)))
  = OpsC04.tabv2 (length beams) pw (fun n k => Syntax.VBool (pfin (Some e) t (vpath (TieMaskB.slot_at beams n k)))).
Proof. exact TieMaskB.mask_on_marks_finished_paths. Qed.
Print Assumptions c04_source_mask_marks_finished_paths.

(* second tie, layer 2 for the `break`: one interpreted iteration (hand-written glue SrcRunB.fw_iter over the translated blocks
   fw_t and fw_mask_on) at a step t > 0 with eos set, from ANY variable state whose persistent part encodes the model's state
   b, ends with the break signal and the persistent variables unchanged EXACTLY when Model.step answers None (every batch
   element done); otherwise it does not break *)
From PV Require C04.TieBreakB.

Theorem c04_source_break_is_model_partial : forall calc isv bsv miv is0 V width fin_all pad ev e t S (b : @bstate Z) lpp pady rest,
  t <> 0 -> 1 <= S -> 1 <= pw b ->
  Forall (fun row => length row = pw b) (beams b) -> Forall (Forall (fun s => len s <= S)) (beams b) ->
  let N := length (beams b) in
  let st := Interp.mkState (TieRunB.live isv bsv miv is0 V width (Some e) fin_all pad N (pw b) (SrcRun.enc_y S N (pw b) (beams b))
                              (prev b) lpp (SrcRun.enc_lens N (pw b) (beams b)) pady
                              (Interp.update TieIterB.v_t (Syntax.VInt (Z.of_nat t)) rest)) ev in
  match step topk_stable calc 0%Z V width (Some e) fin_all pad t b with
  | None => exists rest', Interp.exec (SrcRunB.extB calc) SrcRunB.fw_iter st
                          = Interp.Exc SrcRunB.break_signal
                              (Interp.mkState (TieRunB.live isv bsv miv is0 V width (Some e) fin_all pad N (pw b)
                                                 (SrcRun.enc_y S N (pw b) (beams b)) (prev b) lpp
                                                 (SrcRun.enc_lens N (pw b) (beams b)) pady rest') ev)
  | Some _ => forall st', Interp.exec (SrcRunB.extB calc) SrcRunB.fw_iter st <> Interp.Exc SrcRunB.break_signal st'
  end.
Proof. exact TieBreakB.break_tie_step. Qed.
Print Assumptions c04_source_break_is_model_partial.

(* second tie, layer 2 for the prologue: the block fw_init (everything before the loop) interpreted on
   forward(initial_state = the LM states [inits], batch_size = len(inits), max_iters = m) yields exactly the variables that encode
   Model.init_b - one empty prefix of score 0 per batch element, height 0, prev_width 1, the given states - and pad_y *)
From PV Require C04.TieInitB.

Theorem c04_source_init_is_model : forall calc V width eos fin_all pad (inits : list Z) m,
  let N := length inits in
  Interp.exec (SrcRunB.extB calc) C04BSrc.fw_init
    (Interp.mkState (SrcRunB.init_vars (SrcRunB.self_val V width eos fin_all pad) inits (OpsC04.vnat N) (OpsC04.vnat m)) [])
  = Interp.Ok Interp.CNormal
      (Interp.mkState
         (TieRunB.live (SrcRunB.enc_states inits) (OpsC04.vnat N) (OpsC04.vnat m) (SrcRunB.enc_states inits) V width eos fin_all pad
            N 1 (SrcRun.enc_y 0 N 1 (beams (init_b inits))) inits (SrcRun.enc_lpp N 1 (beams (init_b inits)))
            (SrcRun.enc_lens N 1 (beams (init_b inits))) (OpsC04.tabv3 1 N width (fun _ _ _ => Syntax.VInt pad)) []) []).
Proof. exact TieInitB.init_tie. Qed.
Print Assumptions c04_source_init_is_model.

(* ... and the else branch (t = 0 or eos unset): eos_mask / done_mask all False = Model.eos_at / done_of there, for any tensors *)
Theorem c04_source_mask_off_is_model : forall calc isv bsv miv is0 V width eos fin_all pad ev t pw (beams : list (list slot)) y prev lpp lens pady rest tv,
  (eos = None \/ t = 0) -> 1 <= pw -> Interp.lookup TieIterB.v_t rest = Some tv ->
  let N := length beams in
  exists rest',
    Interp.exec (SrcRunB.extB calc) C04BSrc.fw_mask_off
      (Interp.mkState (TieRunB.live isv bsv miv is0 V width eos fin_all pad N pw y prev lpp lens pady rest) ev)
    = Interp.Ok Interp.CNormal (Interp.mkState (TieRunB.live isv bsv miv is0 V width eos fin_all pad N pw y prev lpp lens pady rest') ev)
    /\ Interp.lookup TieIterB.v_eos_mask rest'
       = Some (SrcRun.encv (OpsC04.tabv2 N pw (fun n k => Syntax.VBool (eos_at eos t (TieMaskB.slot_at beams n k)))))
    /\ Interp.lookup TieIterB.v_done_mask rest'
       = Some (SrcRun.encv (OpsC04.tabv2 N 1 (fun n _ => Syntax.VBool (done_of eos fin_all t (nth n beams [])))))
    /\ Interp.lookup TieIterB.v_t rest' = Some tv.
Proof. exact TieMaskB.mask_off_tie. Qed.
Print Assumptions c04_source_mask_off_is_model.

(* second tie, layer 2 for the epilogue (batch_size given) on width-wide beams - the state after any iteration of the loop:
   the interpreted block returns (y, y_lens, log_probs) = the tensors that encode the beams Model.search returns *)
Theorem c04_source_final_is_model_full : forall calc isv miv is0 V width eos fin_all pad ev S beams prev pady rest pw0 z,
  Forall (fun row => length row = width) beams ->
  let N := length beams in
  let beams' := map (to_width topk_stable width S) beams in
  exists st',
    Interp.exec (SrcRunB.extB calc) C04BSrc.fw_final
      (Interp.mkState (TieRunB.live isv (Syntax.VInt z) miv is0 V width eos fin_all pad N pw0 (SrcRun.enc_y S N width beams) prev
                         (SrcRun.enc_lpp N width beams) (SrcRun.enc_lens N width beams) pady rest) ev)
    = Interp.Ok (Interp.CReturn (Syntax.VTuple [SrcRun.encv (SrcRun.enc_y S N width beams'); SrcRun.encv (SrcRun.enc_lens N width beams');
                                                SrcRun.encv (SrcRun.enc_lpp N width beams')])) st'.
Proof. exact TieB.final_tie_full. Qed.
Print Assumptions c04_source_final_is_model_full.
