(* C03 - the blocks after the preamble on the mask path: sm3_row0 (row 0, del_mat, rrange) and sm3_main = first mask row
   (`row_mask = torch.zeros(..); row_mask[0] = ref_lens > 0; masks.append(row_mask)`), the `for hyp_idx` loop (TieIter), the
   exit (`mask = torch.stack(masks, 0); mask = mask & (arange(R).unsqueeze(1).expand(R, N) < ref_lens).unsqueeze(0);
   return mask`): from the state the preamble leaves ([TiePre.stageA3]) the interpreted blocks RETURN the (H', R, N) boolean
   tensor whose entry (k, i, n) is bit i of row k of the raw masks of column n (first_mask :: masks_loop) restricted to
   i < ref_len - PV.C03.Model.pair_masks. *)
From Coq Require Import ZArith QArith List String Bool Arith Lia ZifyBool ZifyNat.
From PV Require Import MiniPy.Syntax MiniPy.Interp MiniPy.Lemmas MiniTorch.Ops MiniTorch.Lemmas MiniTorch.OpsC07 MiniTorch.LemmasC07
  MiniTorch.OpsC01 MiniTorch.LemmasC01 MiniTorch.OpsC03 MiniTorch.LemmasC03.
From PV Require Import Gen.C03Src C01.SrcRun C01.TieLib C01.TieMath C03.SrcRun C03.TieLib C03.TieMath C03.TieLoop C03.TieIter C03.TiePre.
From PV Require C01.Model C01.Proofs C01.TieLoop C01.TieBlocks C01.TiePre C03.Model C03.ProofsMask.
Import ListNotations.
Local Open Scope string_scope.

#[local] Arguments dec01 : simpl never.
#[local] Arguments enc_b : simpl never.
#[local] Arguments enc_i : simpl never.
#[local] Arguments enc_x : simpl never.
#[local] Arguments tab2 : simpl never.
#[local] Arguments tab3 : simpl never.
#[local] Arguments qz : simpl never.
#[local] Arguments Z.add : simpl never.
#[local] Arguments Z.sub : simpl never.
#[local] Arguments Z.of_nat : simpl never.
#[local] Arguments select0 : simpl never.
#[local] Arguments slice0 : simpl never.
#[local] Arguments set_slice0 : simpl never.
#[local] Arguments broadcast : simpl never.
#[local] Arguments where_f : simpl never.
#[local] Arguments min_dim : simpl never.
#[local] Arguments min_dim_keep : simpl never.
#[local] Arguments set_row0 : simpl never.
#[local] Arguments stack0 : simpl never.
#[local] Arguments gather0 : simpl never.
#[local] Arguments unsqueeze : simpl never.
#[local] Arguments squeeze_dim : simpl never.
#[local] Arguments expand2 : simpl never.
#[local] Arguments triu_f : simpl never.
#[local] Arguments transpose2 : simpl never.
#[local] Arguments arange_f : simpl never.
#[local] Arguments arange : simpl never.
#[local] Arguments full : simpl never.
#[local] Arguments fadd : simpl never.
#[local] Arguments fsub : simpl never.
#[local] Arguments fmul : simpl never.
#[local] Arguments fdiv : simpl never.
#[local] Arguments fmin : simpl never.
#[local] Arguments fx_gtb : simpl never.
#[local] Arguments fx_eqb : simpl never.
#[local] Arguments b2f : simpl never.
#[local] Arguments z2f : simpl never.

#[local] Arguments ext01 : simpl never.
#[local] Arguments ext03 : simpl never.
#[local] Arguments zf : simpl never.
#[local] Arguments ofx : simpl never.
#[local] Arguments seq : simpl never.
#[local] Arguments fmin_list : simpl never.
#[local] Arguments zrange : simpl never.

Notation colf := C01.TieLoop.colf.
Notation lens_tensor := C01.TieBlocks.lens_tensor.

Definition stageB3 (s : positive) (cd : Z) (R N : nat) : list (string * val) :=
  [("rrange", enc_x (mkTn [S R] (map (fun i => z2f (Z.of_nat i)) (seq 0 (S R)))));
   ("del_mat", enc_x (mkTn [S R; S R; 1%nat] (tab2 (S R) (S R) (fun i j => ofx s (C01.Model.del_entry cd i j)))));
   ("row", enc_x (mkTn [S R; N] (tab2 (S R) N (fun i _ => zf s (Z.of_nat i * cd)))))].

Section Blocks.
  Variables (s : positive) (ci cd cs : Z) (mult : Q) (R N H : nat) (rf hf : nat -> nat -> Z) (rl hl : nat -> nat) (nm w excl : bool).
  Notation A := (stageA3 s ci cd cs mult R N H rf hf rl hl nm w excl).

  Lemma row0_run3 : forall st, known3 st A -> runs_to (fun st' => known3 st' (A ++ stageB3 s cd R N)) (exec ext03 sm3_row0 st).
  Proof.
    intros st K. unfold stageA3 in K. open_known3 K. unfold sm3_row0.
    assign3x ltac:(evn3; replace (Z.of_nat R + 1)%Z with (Z.of_nat (S R)) by lia; rewrite arange_f_nat; evn3; reflexivity).
    ifstep3. rewrite !xexec_seq_assoc.
    asg3. asg3.
    assign3x ltac:(evn3; change 1%Z with (Z.of_nat 1); rewrite full_mat, triu_mat; evn3; reflexivity).
    asg3.
    assign3x ltac:(evn3; replace (Z.of_nat R + 1)%Z with (Z.of_nat (S R)) by lia; rewrite expand2_col; evn3; reflexivity).
    apply runs_to_ok. unfold stageA3, stageB3. close_known3.
    - match goal with L : lookup "del_mat" _ = _ |- _ => rewrite L end. do 3 f_equal. apply tab2_ext. intros i j Hi Hj.
      apply del_entry_src.
    - match goal with L : lookup "row" _ = _ |- _ => rewrite L end. do 3 f_equal. apply tab2_ext. intros i j Hi Hj.
      apply fmul_z2f_zf.
  Qed.

  (* ---- sm3_main: the first mask row, the loop, the exit ------------------------------------------------------------ *)
  Definition main_flags3 : stmt := match sm3_main with SSeq a _ => a | _ => SPass end.
  Definition main_exit3 : stmt := match sm3_main with SSeq _ (SSeq _ r) => r | _ => SPass end.
  Lemma sm3_main_eq : sm3_main = SSeq main_flags3 (SSeq sm3_loop main_exit3).
  Proof. reflexivity. Qed.

  (* row 0 of the table and the first mask row, as the source builds them *)
  Definition lf0 (i _ : nat) : option Z := Some (Z.of_nat i * cd)%Z.
  Definition first_fn (i n : nat) : bool := match i with O => (Z.of_nat (rl n) >? 0)%Z | S _ => false end.

  Lemma flags_run3 : forall st, R <> 0%nat -> known3 st (A ++ stageB3 s cd R N) ->
    runs_to (fun st' => body_pre3 s ci cd cs R N H rf hf rl hl excl lf0 [first_fn] st' /\
                        lookup "max_hyp_steps" (vars st') = Some (VInt (Z.of_nat H)))
            (exec ext03 main_flags3 st).
  Proof.
    intros st HR K. unfold stageA3, stageB3, C01.TieBlocks.lens_tensor in K. open_known3 K.
    unfold main_flags3, sm3_main. cbv iota.
    ifstep3.
    assign3x ltac:(evn3; replace ((Z.of_nat R <? 0) || (Z.of_nat N <? 0))%Z with false by lia; rewrite !Nat2Z.id, full_mat; reflexivity).
    setitem3_t ltac:(evn3; rewrite ?set_row0_first by exact HR; reflexivity).
    append3.
    apply runs_to_ok. split; [|assumption].
    unfold body_pre3, lens_val, masks_val, lf0. repeat (split; [assumption|]). cbn [app map]. assumption.
  Qed.

  (* the raw masks of column n: first_mask :: masks_loop, by (prefix, position) *)
  Definition raw_mask (k i n : nat) : bool :=
    nth i (nth k (C03.Model.first_mask (colf R rf n) (rl n)
                  :: C03.Model.masks_loop ci cd cs (colf R rf n) (colf H hf n) (rl n) (hl n) excl
                       (loop_steps H excl) 1 (C03.Model.orow0 cd (colf R rf n))) []) false.

  Lemma colo_lf0 n : colo (S R) lf0 n = C03.Model.orow0 cd (colf R rf n).
  Proof. unfold colo, lf0, C03.Model.orow0. now rewrite C01.TiePre.colf_length. Qed.

  Lemma masks_as_raw :
    ms_eq R N ([first_fn] ++ loop_masks3 ci cd cs R H rf hf rl hl excl (loop_steps H excl) 0 lf0)
              (map raw_mask (seq 0 (S (loop_steps H excl)))).
  Proof.
    rewrite <- (cons_seq (loop_steps H excl) 0). cbn [app map]. constructor.
    - intros i n Hi Hn. unfold raw_mask, first_fn. cbn [nth]. unfold C03.Model.first_mask.
      rewrite C01.TiePre.colf_length, C01.Proofs.nth_map_seq by exact Hi. cbn [Nat.add].
      destruct i as [|i]; cbn [Nat.eqb andb]; [lia|reflexivity].
    - unfold loop_masks3. rewrite <- seq_shift, map_map.
      apply Forall2_map_seq. intros j Hj i n Hi Hn. cbn [Nat.add].
      unfold raw_mask. cbn [nth]. now rewrite colo_lf0.
  Qed.

  Definition mask_value : val :=
    enc_b (mkTn [S (loop_steps H excl); R; N]
             (tab3 (S (loop_steps H excl)) R N (fun k i n => (raw_mask k i n && (Z.of_nat i <? Z.of_nat (rl n))%Z)%bool))).

  (* with any loop statement that has the property of [loop_tie3] (sm3_loop, or the loop inside sm3_body) *)
  Section AnyLoop.
    Variable lp : stmt.
    Hypothesis Hlp : forall st lf ms,
      body_pre3 s ci cd cs R N H rf hf rl hl excl lf ms st ->
      lookup "max_hyp_steps" (vars st) = Some (VInt (Z.of_nat H)) ->
      runs_to (body_pre3 s ci cd cs R N H rf hf rl hl excl
                 (fun i n => nth i (iter_col3 ci cd cs R H rf hf rl hl excl (loop_steps H excl) 0 lf n) None)
                 (ms ++ loop_masks3 ci cd cs R H rf hf rl hl excl (loop_steps H excl) 0 lf)) (exec ext03 lp st).

    Lemma main_run_gen3 : forall st, R <> 0%nat -> known3 st (A ++ stageB3 s cd R N) ->
      returns3 mask_value (exec ext03 (SSeq main_flags3 (SSeq lp main_exit3)) st).
    Proof.
      intros st HR K.
      eapply xreturns_seq; [apply flags_run3; assumption|]. intros st1 [P1 Hmax].
      eapply xreturns_seq; [apply (Hlp st1 _ _ P1 Hmax)|]. intros st2 P2.
      apply (body_pre3_ext _ _ _ _ _ _ _ _ _ _ _ _ _ _ _ _ st2 (fun _ _ _ _ => eq_refl) masks_as_raw) in P2.
      destruct P2 as (Hexcl & Hmist & Hmask & Hhl & Hrl & Href & Hhyp & Hci & Hcs & Hdm & Hrr & Hmr & Hbs & Hdev & Hrow & Hms).
      unfold main_exit3, sm3_main. cbv iota. unfold lens_val, masks_val in *. rewrite <- map_map in Hms.
      ifstep3.
      assign3x ltac:(ev3; rewrite ext3_stack, map_map, stack0_tabs by lia; evn3; reflexivity).
      assign3x ltac:(evn3; rewrite arange_nat; evn3; rewrite expand2_col; evn3; reflexivity).
      cbn [exec eval]. look. cbn [bind]. eexists. reflexivity.
    Qed.
  End AnyLoop.

  Lemma main_run3 : forall st, R <> 0%nat -> known3 st (A ++ stageB3 s cd R N) ->
    returns3 mask_value (exec ext03 sm3_main st).
  Proof.
    rewrite sm3_main_eq. apply main_run_gen3. intros st lf ms P Hm.
    exact (loop_tie3 s ci cd cs R N H rf hf rl hl excl st lf ms P Hm).
  Qed.
End Blocks.
