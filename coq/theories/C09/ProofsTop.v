(* C09 — statements about the functions as the caller sees them (tensors, not rows):
   chunk_by_slices, pad_masked_sequence, random_shift. *)
From Coq Require Import List Arith Bool Lia ZArith QArith Qround Lqa ZifyBool ZifyNat.
From PV Require Import C09.Model C09.Spec C09.Proofs C09.Buffers C09.ProofsPad C09.ChunkRow C09.ProofsChunk.
Import ListNotations.
Local Close Scope Q_scope.
Local Open Scope nat_scope.

(* ====================== chunk_by_slices ====================== *)
Section ChunkTop.
  Context {A : Type}.

  Definition crow_at (T : nat) (x : list (list A)) (slices : list (Z * Z)) (lens : option (list nat))
             (n : nat) : crow A :=
    mkCrow (nth n x []) (match lens with Some l => nth n l 0 | None => T end)
           (fst (nth n slices (0, 0)%Z)) (snd (nth n slices (0, 0)%Z)).

  Lemma zip_crows_length T (x : list (list A)) slices lens : length (zip_crows T x slices lens) = length x.
  Proof. unfold zip_crows. now rewrite map_length, seq_length. Qed.

  Lemma zip_crows_nth T (x : list (list A)) slices lens n r0 :
    n < length x -> nth n (zip_crows T x slices lens) r0 = crow_at T x slices lens n.
  Proof.
    intros H. unfold zip_crows.
    rewrite (nth_map_lt _ _ n 0) by (now rewrite seq_length). rewrite seq_nth by assumption. reflexivity.
  Qed.

  Lemma zip_crows_in T (x : list (list A)) slices lens r :
    In r (zip_crows T x slices lens) -> exists n, n < length x /\ r = crow_at T x slices lens n.
  Proof.
    unfold zip_crows. intros H. apply in_map_iff in H as (n & <- & Hn). apply in_seq in Hn.
    exists n. split; [lia|reflexivity].
  Qed.

  Lemma zip_crows_row_in T (x : list (list A)) slices lens n :
    n < length x -> In (crow_at T x slices lens n) (zip_crows T x slices lens).
  Proof.
    intros Hn. rewrite <- (zip_crows_nth T x slices lens n (crow_at T x slices lens 0) Hn).
    apply nth_In. now rewrite zip_crows_length.
  Qed.

  (* the model's pad amounts are the spec's *)
  Lemma c_lp_chunk_l (r : crow A) : c_lp r = chunk_l (c_start r) (c_end r).
  Proof.
    unfold c_lp, chunk_l, c_empty, c_chunk.
    destruct (Nat.eqb_spec (Z.to_nat (c_end r - c_start r)) 0), (Z.leb_spec (c_end r) (c_start r)); lia.
  Qed.

  Lemma c_rp_chunk_r (r : crow A) : c_rp r = chunk_r (c_len r) (c_start r) (c_end r).
  Proof.
    unfold c_rp, chunk_r, c_empty, c_chunk.
    destruct (Nat.eqb_spec (Z.to_nat (c_end r - c_start r)) 0), (Z.leb_spec (c_end r) (c_start r)); lia.
  Qed.

  Definition chunk_inputs_ok (T : nat) (md : mode) (x : list (list A)) (slices : list (Z * Z))
             (lens : option (list nat)) : Prop :=
    x <> [] /\
    match lens with Some l => length l = length x | None => True end /\
    forall n, n < length x ->
      let r := crow_at T x slices lens n in
      length (c_cells r) = T /\ c_len r <= T /\
      legalb md (chunk_l (c_start r) (c_end r)) (chunk_r (c_len r) (c_start r) (c_end r)) (c_len r) = true.

  Theorem chunk_by_slices_correct T d fill md (x : list (list A)) slices lens :
    chunk_inputs_ok T md x slices lens ->
    exists Tp out olens,
      chunk_by_slices T d fill md x slices lens = Ok (out, olens) /\
      length out = length x /\ length olens = length x /\
      forall n, n < length x ->
        let r := crow_at T x slices lens n in
        nth n olens 0 = chunk_len1 (c_start r) (c_end r) /\
        firstn (nth n olens 0) (nth n out [])
        = chunk1 md fill (firstn (c_len r) (c_cells r)) (c_start r) (c_end r) /\
        length (nth n out []) = Tp /\ nth n olens 0 <= Tp.
  Proof.
    intros (Hne & Hlens & Hrows).
    set (rows := zip_crows T x slices lens).
    assert (Hrne : rows <> []).
    { intros E. apply (f_equal (@length _)) in E. unfold rows in E. rewrite zip_crows_length in E.
      destruct x; [congruence|discriminate]. }
    assert (Hok : c_ok md T rows).
    { intros r Hr. apply zip_crows_in in Hr as (n & Hn & ->).
      rewrite c_lp_chunk_l, c_rp_chunk_r. apply (Hrows n Hn). }
    exists (c_Tp rows), (map (c_out fill md rows) rows), (map c_chunk rows).
    split; [|split; [|split]].
    - unfold chunk_by_slices.
      destruct (Nat.eqb_spec (length x) 0) as [E|_].
      { apply length_zero_iff_nil in E. contradiction. }
      assert (E : chunk_rows T d fill md rows = Ok (map (c_out fill md rows) rows, map c_chunk rows))
        by (apply chunk_rows_eq; assumption).
      destruct lens as [l|]; [|exact E]. rewrite Hlens, Nat.eqb_refl. exact E.
    - rewrite map_length. apply zip_crows_length.
    - rewrite map_length. apply zip_crows_length.
    - intros n Hn. cbv zeta.
      pose proof (zip_crows_row_in T x slices lens n Hn) as Hin. fold rows in Hin.
      assert (Hlen : n < length rows) by (unfold rows; now rewrite zip_crows_length).
      rewrite (nth_map_lt c_chunk rows n (crow_at T x slices lens 0)) by assumption.
      rewrite (nth_map_lt (c_out fill md rows) rows n (crow_at T x slices lens 0)) by assumption.
      replace (nth n rows (crow_at T x slices lens 0)) with (crow_at T x slices lens n)
        by (symmetry; apply zip_crows_nth; assumption).
      destruct (c_out_correct fill md rows T Hrne Hok _ Hin) as (H1 & H2 & H3).
      split; [reflexivity|]. split; [exact H1|]. split; assumption.
  Qed.

  (* "the reported output lengths are exactly the requested ones (empty slices giving zero)" *)
  Theorem chunk_lens_exact T d fill md (x : list (list A)) slices lens out olens :
    chunk_inputs_ok T md x slices lens ->
    chunk_by_slices T d fill md x slices lens = Ok (out, olens) ->
    forall n, n < length x ->
      let st := fst (nth n slices (0, 0)%Z) in
      let en := snd (nth n slices (0, 0)%Z) in
      Z.of_nat (nth n olens 0) = Z.max (en - st) 0 /\
      ((en <= st)%Z -> nth n olens 0 = 0).
  Proof.
    intros Hin Heq n Hn. destruct (chunk_by_slices_correct T d fill md x slices lens Hin)
      as (Tp & out' & olens' & Heq' & _ & _ & H).
    rewrite Heq in Heq'. injection Heq' as -> ->.
    destruct (H n Hn) as (H1 & _). cbv zeta in *. rewrite H1. unfold chunk_len1. cbn [crow_at c_start c_end].
    split; lia.
  Qed.

  (* an illegal row makes the call raise (the batch being non-degenerate) *)
  Theorem chunk_by_slices_illegal T d fill md (x : list (list A)) slices lens n :
    match lens with Some l => length l = length x | None => True end ->
    n < length x ->
    (let r := crow_at T x slices lens n in
     legalb md (chunk_l (c_start r) (c_end r)) (chunk_r (c_len r) (c_start r) (c_end r)) (c_len r) = false) ->
    (md = Reflect -> chunk_by_slices T d fill md x slices lens = ErrNotImpl) /\
    (md = Replicate -> chunk_by_slices T d fill md x slices lens = ErrRuntime) /\
    md <> Constant.
  Proof.
    intros Hlens Hn Hleg. cbv zeta in Hleg.
    pose proof (zip_crows_row_in T x slices lens n Hn) as Hin.
    rewrite <- c_lp_chunk_l, <- c_rp_chunk_r in Hleg.
    pose proof (padding_buffers_illegal c_cells c_len c_lp c_rp T d md _ _ Hin Hleg) as H.
    assert (Hnz : (length x =? 0) = false) by (apply Nat.eqb_neq; lia).
    unfold chunk_by_slices, chunk_rows. rewrite zip_crows_length, Hnz.
    assert (Hl : match lens with Some l => (length l =? length x) = true | None => True end).
    { destruct lens; [now rewrite Hlens, Nat.eqb_refl|exact I]. }
    split; [|split].
    - intros ->. destruct lens; [rewrite Hl|]; rewrite H; reflexivity.
    - intros ->. destruct lens; [rewrite Hl|]; rewrite H; reflexivity.
    - intros ->. exact H.
  Qed.
End ChunkTop.

(* ====================== pad_masked_sequence ====================== *)
Section MaskedTop.
  Context {A : Type}.

  Lemma select1_mselect (s : list A) m : select1 s m = mselect m s.
  Proof.
    revert m; induction s as [|a s IH]; intros [|b m]; try reflexivity.
    cbn. rewrite IH. reflexivity.
  Qed.

  Theorem pad_masked_rows_correct T (fill : A) (rows : list (list A * list bool)) :
    (forall r, In r rows -> length (fst r) = T /\ length (snd r) = T) ->
    pad_masked_rows T fill rows
    = Ok (map (fun r => fst (compact1 fill (fst r) (snd r))) rows,
          map (fun r => snd (compact1 fill (fst r) (snd r))) rows).
  Proof.
    intros H. unfold pad_masked_rows.
    rewrite mselect_rows by (intros r Hr; destruct (H r Hr); lia).
    assert (Hc : forall r, In r rows -> length (mselect (snd r) (fst r)) = count_true (snd r)
                                          /\ count_true (snd r) <= T).
    { intros r Hr. destruct (H r Hr) as (H1 & H2).
      rewrite <- (mselect_length (snd r) (fst r)) by lia. split; [reflexivity|].
      clear - H1 H2. revert H1 H2. generalize (fst r) (snd r) T. clear.
      intros l m. revert l. induction m as [|b m IH]; intros [|a l] T H1 H2; cbn in *; try lia.
      destruct T; [discriminate|]. destruct b; cbn; specialize (IH l T); lia. }
    erewrite (map_ext_in (fun r => map (fun _ => fill) (fst r))
                (fun r => [] ++ repeat fill (count_true (snd r)) ++ repeat fill (T - count_true (snd r))) rows).
    2:{ intros r Hr. destruct (H r Hr) as (H1 & _). destruct (Hc r Hr) as (_ & H3). cbn [app].
        rewrite (map_const_in (fun _ => fill) fill) by reflexivity. rewrite <- repeat_app. f_equal. lia. }
    unfold lt_mask.
    rewrite (scatter2_seg rows (fun r t => t <? count_true (snd r)) T _ _ _ (fun r => mselect (snd r) (fst r))).
    2:{ intros r Hr. destruct (Hc r Hr) as (H2 & H3). rewrite !repeat_length. cbn [length].
        split; [lia|]. split; [lia|]. seg_solve. }
    cbn [bind]. f_equal. f_equal.
    - apply map_ext_in. intros r Hr. destruct (H r Hr) as (H1 & _). destruct (Hc r Hr) as (H2 & _).
      unfold compact1. cbn [fst app]. rewrite select1_mselect, H2, H1. reflexivity.
    - apply map_ext_in. intros r Hr. destruct (Hc r Hr) as (H2 & _).
      unfold compact1. cbn [snd]. rewrite select1_mselect, H2. reflexivity.
  Qed.

  Lemma transpose_length {B} n (d : B) x : length (transpose n d x) = n.
  Proof. unfold transpose. now rewrite map_length, seq_length. Qed.

  Lemma transpose_nth {B} n (d : B) x i :
    i < n -> nth i (transpose n d x) [] = map (fun row => nth i row d) x.
  Proof.
    intros H. unfold transpose. rewrite (nth_map_lt _ _ i 0) by (now rewrite seq_length).
    now rewrite seq_nth.
  Qed.

  (* the batch-first view of an input / output *)
  Definition bf_view {B} (n : nat) (d : B) (bf : bool) (x : list (list B)) : list (list B) :=
    if bf then x else transpose n d x.

  Theorem pad_masked_sequence_correct N T (d fill : A) bf x mask :
    let xv := bf_view N d bf x in
    let mv := bf_view N false bf mask in
    length xv = N -> length mv = N ->
    (forall n, n < N -> length (nth n xv []) = T /\ length (nth n mv []) = T) ->
    exists o lens,
      pad_masked_sequence N T d fill bf x mask = Ok (if bf then o else transpose T d o, lens) /\
      length o = N /\ length lens = N /\
      forall n, n < N -> (nth n o [], nth n lens 0) = compact1 fill (nth n xv []) (nth n mv []).
  Proof.
    intros xv mv Hx Hm Hrows.
    set (rows := combine xv mv).
    assert (Hlen : length rows = N) by (unfold rows; rewrite combine_length; lia).
    assert (Hnth : forall n, n < N -> nth n rows ([], []) = (nth n xv [], nth n mv [])).
    { intros n Hn. unfold rows. apply combine_nth. lia. }
    assert (Hok : forall r, In r rows -> length (fst r) = T /\ length (snd r) = T).
    { intros r Hr. apply (In_nth _ _ ([], [])) in Hr as (n & Hn & <-). rewrite Hnth by lia.
      apply Hrows. lia. }
    exists (map (fun r => fst (compact1 fill (fst r) (snd r))) rows),
           (map (fun r => snd (compact1 fill (fst r) (snd r))) rows).
    split; [|split; [|split]].
    - unfold pad_masked_sequence. subst xv mv. unfold bf_view in *. destruct bf.
      + fold rows. now apply pad_masked_rows_correct.
      + fold rows. rewrite (pad_masked_rows_correct T fill rows Hok). reflexivity.
    - now rewrite map_length.
    - now rewrite map_length.
    - intros n Hn.
      rewrite (nth_map_lt _ rows n ([], [])), (nth_map_lt _ rows n ([], [])) by lia.
      rewrite Hnth by assumption. cbn [fst snd]. now destruct (compact1 _ _ _).
  Qed.

  (* cell [t][n] of the time-major output is cell [n][t] of the batch-first one *)
  Lemma transpose_cell T (d : A) (o : list (list A)) t n :
    t < T -> n < length o -> nth n (nth t (transpose T d o) []) d = nth t (nth n o []) d.
  Proof.
    intros Ht Hn. rewrite transpose_nth by assumption.
    rewrite (nth_map_lt _ o n []) by assumption. reflexivity.
  Qed.
End MaskedTop.

(* ====================== random_shift ====================== *)
Section ShiftTop.
  Context {A : Type}.
  Local Open Scope Q_scope.

  Lemma Qmul_le_self a u : 0 <= a -> u <= 1 -> a * u <= a.
  Proof.
    intros Ha Hu. rewrite <- (Qmult_1_r a) at 2. rewrite !(Qmult_comm a).
    apply Qmult_le_compat_r; assumption.
  Qed.

  Lemma trunc_nonneg q : 0 <= q -> trunc q = Qfloor q /\ (0 <= Qfloor q)%Z.
  Proof.
    intros H. unfold trunc. rewrite (proj2 (Qle_bool_iff 0 q) H). split; [reflexivity|].
    change 0%Z with (Qfloor 0). now apply Qfloor_resp_le.
  Qed.

  Definition qlen (len : nat) : Q := inject_Z (Z.of_nat len).

  Lemma qlen_nonneg len : 0 <= qlen len.
  Proof. unfold qlen. change 0 with (inject_Z 0). rewrite <- Zle_Qle. lia. Qed.

  (* "a non-negative whole number of elements not exceeding the configured proportion" *)
  Lemma shift_amount_le p len u :
    0 <= p -> 0 <= u -> u < 1 -> qlen (shift_amount p len u) <= p * qlen len.
  Proof.
    intros Hp Hu0 Hu1. unfold shift_amount. fold (qlen len).
    assert (Ha : 0 <= p * qlen len) by (apply Qmult_le_0_compat; [assumption|apply qlen_nonneg]).
    assert (Hq : 0 <= p * qlen len * u) by (apply Qmult_le_0_compat; assumption).
    destruct (trunc_nonneg _ Hq) as (-> & Hf).
    unfold qlen. rewrite Z2Nat.id by assumption.
    apply Qle_trans with (p * inject_Z (Z.of_nat len) * u); [apply Qfloor_le|].
    apply Qmul_le_self; [exact Ha|]. now apply Qlt_le_weak.
  Qed.

  (* with a proportion <= 1 the amount stays below the length (what reflect needs) *)
  Lemma shift_amount_lt p len u :
    0 <= p -> p <= 1 -> 0 <= u -> u < 1 -> (1 <= len)%nat -> (shift_amount p len u < len)%nat.
  Proof.
    intros Hp Hp1 Hu0 Hu1 Hlen. unfold shift_amount. fold (qlen len).
    assert (Hl : 0 <= qlen len) by apply qlen_nonneg.
    assert (Ha : 0 <= p * qlen len) by (apply Qmult_le_0_compat; assumption).
    assert (Hq : 0 <= p * qlen len * u) by (apply Qmult_le_0_compat; assumption).
    destruct (trunc_nonneg _ Hq) as (-> & Hf).
    assert (Hlt : p * qlen len * u < qlen len).
    { assert (Hal : p * qlen len <= qlen len).
      { rewrite <- (Qmult_1_l (qlen len)) at 2. apply Qmult_le_compat_r; assumption. }
      destruct (Qlt_le_dec 0 (p * qlen len)) as [Hpos | Hzero].
      - apply Qlt_le_trans with (p * qlen len); [|assumption].
        rewrite <- (Qmult_1_r (p * qlen len)) at 2. apply Qmult_lt_l; assumption.
      - assert (E : p * qlen len == 0) by (apply Qle_antisym; assumption).
        rewrite E, Qmult_0_l. unfold qlen. change 0 with (inject_Z 0). rewrite <- Zlt_Qlt. lia. }
    assert (Hz : (Qfloor (p * qlen len * u) < Z.of_nat len)%Z).
    { rewrite Zlt_Qlt. apply Qle_lt_trans with (p * qlen len * u); [apply Qfloor_le|exact Hlt]. }
    lia.
  Qed.
End ShiftTop.

Section ShiftThm.
  Context {A : Type}.

  Lemma map2_length {X Y W} (f : X -> Y -> W) a b :
    length a = length b -> length (map2 f a b) = length a.
  Proof.
    revert b; induction a as [|x a IH]; intros [|y b] H; try discriminate; [reflexivity|].
    cbn in *. now rewrite IH by lia.
  Qed.

  Lemma map2_nth {X Y W} (f : X -> Y -> W) a b n dx dy dw :
    length a = length b -> n < length a -> nth n (map2 f a b) dw = f (nth n a dx) (nth n b dy).
  Proof.
    revert b n; induction a as [|x a IH]; intros [|y b] n H Hn; try discriminate; cbn in *; [lia|].
    destruct n; [reflexivity|]. apply IH; lia.
  Qed.

  (* "is the identity in evaluation mode" *)
  Theorem random_shift_eval_identity T (d fill : A) md p0 p1 (x : list (list A)) lens u0 u1 :
    length lens = length x ->
    random_shift T d fill md p0 p1 false x lens u0 u1 = Ok (x, lens).
  Proof. intros H. unfold random_shift. rewrite H, Nat.eqb_refl. reflexivity. Qed.

  Definition unit_interval (u : list Q) : Prop :=
    forall n, n < length u -> (0 <= nth n u 0)%Q /\ (nth n u 0 < 1)%Q.

  (* what the mode requires of the lengths / proportions for the training branch not to raise *)
  Definition shift_mode_ok (md : mode) (p0 p1 : Q) (lens : list nat) : Prop :=
    match md with
    | Constant => True
    | Replicate => forall n, n < length lens -> 1 <= nth n lens 0
    | Reflect => (forall n, n < length lens -> 1 <= nth n lens 0) /\ (p0 <= 1)%Q /\ (p1 <= 1)%Q
    | OtherMode => False
    end.

  Theorem random_shift_bounds_and_embedding T (d fill : A) md p0 p1 (x : list (list A)) lens u0 u1 :
    x <> [] -> length lens = length x -> length u0 = length x -> length u1 = length x ->
    (forall n, n < length x -> length (nth n x []) = T /\ nth n lens 0 <= T) ->
    (0 <= p0)%Q -> (0 <= p1)%Q -> unit_interval u0 -> unit_interval u1 ->
    shift_mode_ok md p0 p1 lens ->
    exists pl pr Tp out olens,
      random_shift T d fill md p0 p1 true x lens u0 u1 = Ok (out, olens) /\
      length out = length x /\ length olens = length x /\
      forall n, n < length x ->
        let len := nth n lens 0 in
        let l := nth n pl 0 in
        let r := nth n pr 0 in
        (* whole, non-negative (they are naturals) and bounded by the proportion *)
        (qlen l <= p0 * qlen len)%Q /\ (qlen r <= p1 * qlen len)%Q /\
        nth n olens 0 = len + (l + r) /\
        (* the original sequence sits unchanged between the two paddings *)
        firstn len (skipn l (nth n out [])) = firstn len (nth n x []) /\
        nth n out [] = pad1 md fill l r (firstn len (nth n x [])) ++ repeat fill (Tp - (len + (l + r))).
  Proof.
    intros Hne Hl Hu0 Hu1 Hrows Hp0 Hp1 HU0 HU1 Hmode.
    set (pl := map2 (shift_amount p0) lens u0). set (pr := map2 (shift_amount p1) lens u1).
    assert (Hpl : length pl = length x) by (unfold pl; rewrite map2_length; lia).
    assert (Hpr : length pr = length x) by (unfold pr; rewrite map2_length; lia).
    assert (Hpln : forall n, n < length x -> nth n pl 0 = shift_amount p0 (nth n lens 0) (nth n u0 0%Q)).
    { intros n Hn. unfold pl. apply map2_nth; lia. }
    assert (Hprn : forall n, n < length x -> nth n pr 0 = shift_amount p1 (nth n lens 0) (nth n u1 0%Q)).
    { intros n Hn. unfold pr. apply map2_nth; lia. }
    assert (Hin : inputs_ok T md x lens pl pr).
    { split; [assumption|]. repeat split; try assumption; try (apply Hrows; assumption).
      rewrite Hpln, Hprn by assumption.
      destruct (HU0 n ltac:(lia)) as (Ha & Hb). destruct (HU1 n ltac:(lia)) as (Hc & Hd).
      destruct md; cbn [legalb shift_mode_ok] in *; try reflexivity; try contradiction.
      - destruct Hmode as (Hlen & Hq0 & Hq1). specialize (Hlen n ltac:(lia)).
        pose proof (shift_amount_lt p0 (nth n lens 0) _ Hp0 Hq0 Ha Hb Hlen).
        pose proof (shift_amount_lt p1 (nth n lens 0) _ Hp1 Hq1 Hc Hd Hlen). lia.
      - specialize (Hmode n ltac:(lia)). lia. }
    destruct (pad_variable_correct T d fill md x lens pl pr Hin) as (Tp & out & Hout & Hlo & Hn & _).
    exists pl, pr, Tp, out, (map2 Nat.add lens (map2 Nat.add pl pr)).
    split; [|split; [|split]].
    - unfold random_shift. rewrite Hl, Nat.eqb_refl. cbn [negb]. fold pl pr. rewrite Hout. reflexivity.
    - assumption.
    - rewrite map2_length; [lia|]. rewrite map2_length; lia.
    - intros n Hlt. cbv zeta. destruct (Hn n Hlt) as (Hle & Hrow). cbv zeta in Hle, Hrow.
      destruct (HU0 n ltac:(lia)) as (Ha & Hb). destruct (HU1 n ltac:(lia)) as (Hc & Hd).
      destruct Hin as (_ & _ & _ & _ & Hleg). destruct (Hleg n Hlt) as (HcT & HlT & Hlegal).
      split; [rewrite Hpln by assumption; now apply shift_amount_le|].
      split; [rewrite Hprn by assumption; now apply shift_amount_le|].
      split.
      { rewrite (map2_nth Nat.add lens _ n 0 0 0); [|rewrite map2_length; lia|lia].
        rewrite (map2_nth Nat.add pl pr n 0 0 0); [reflexivity|lia|lia]. }
      split; [|exact Hrow].
      rewrite Hrow. set (s := firstn (nth n lens 0) (nth n x [])).
      assert (Hs : length s = nth n lens 0) by (unfold s; rewrite firstn_length; lia).
      assert (Hmd : md <> OtherMode) by (intros ->; discriminate).
      rewrite (pad1_parts md) by assumption.
      rewrite <- app_assoc, skipn_app_exact
        by (symmetry; apply (lpart_length md fill _ (nth n pr 0)); now rewrite Hs).
      rewrite <- app_assoc, firstn_app_exact by (now rewrite Hs).
      reflexivity.
  Qed.
End ShiftThm.
