"""C02 — the error rate counts the edits of some minimum-cost alignment; MER loss.

Correspondence between /repo's error_rate / prefix_error_rates / minimum_error_rate_loss
(functional and module forms) and PV.C02.Model, evaluated inside Coq with vm_compute.  The
shared Levenshtein machinery (case format, tensors, generators, float canonicalisation) is
imported from props.c01.  Regime E for the string part: costs k/4 (the model works on the
integers k; only their order relations matter on the mistakes path), edit counts are small
integers, so an un-normalised output is compared exactly and a normalised one (one IEEE
division) is bracketed by 2^-23 relative inside Coq and recomputed bit-exactly on the
implementation side.  Regime T for the loss: torch's float64 softmax, rounded to 2^-24, is the
model's weight matrix; the loss is compared with an absolute tolerance.

On a disagreement the verdict comes from PV.C02.Spec alone (the set of edit counts of all
minimum-cost scripts, er_okb), so a harmless change of tie-breaking is reported as
no-failing-input-found, not as a bogus counterexample.
"""
import itertools
import json
import random as _random
import warnings
from fractions import Fraction

import torch

torch.set_num_threads(1)

from vlib import cb, cl, clz, cn, co, cq, cz, coq_eval_bools, coq_eval_print, exc_kind, load_corpus, shrink
from props import c01 as base
from props.c01 import _dims, _tensor, _canon, _q, _mat, _cfg, _cut, _rand_seq, _mutate, _exh_pairs, PADS, SCALE

IMPORTS = "From PV Require Import C01.Obs C01.Spec C01.Model C02.Spec C02.Model.\n"
TOL = Fraction(1, 20000)  # 5e-5 absolute on loss values (float32 pipeline, |values| <= ~20)
WBITS = 24
THEOREMS = ["c02_cost_rows_are_c01_rows", "c02_mistakes_invariant", "c02_mistakes_freeze",
            "c02_error_rate_optimal_alignment", "c02_error_rate_within_min_max", "c02_error_rate_uniform_is_levenshtein",
            "c02_error_rate_norm", "c02_prefix_error_rates_correct", "c02_mer_loss_formula", "c02_mer_er_allowed"]
STR_APIS = ("er", "prefix")

# ------------------------------------------------------------------------------------------
# cases
# ------------------------------------------------------------------------------------------
# string case (api "er" | "prefix"): as in props.c01 (ref/hyp = N sequences of the tensor widths,
#   eos, include_eos, norm, batch_first, exclude_last, costs=[ki,kd,ks] in quarters, padding, warn,
#   module, kw, defaults)
# loss case (api "mer"): ref = N sequences (ref3 False) or N lists of M sequences (ref3 True),
#   hyp = N lists of M sequences, logp = N lists of M floats, sub_avg, reduction, + the string options


# the documented defaults of the public entry points (signature / docstring of the pinned version); an option that a
# 'sparse' call leaves out must behave as if this value had been passed
DEFAULTS = {
    "er": dict(eos=None, include_eos=False, norm=True, batch_first=False, ins_cost=1.0, del_cost=1.0, sub_cost=1.0,
               warn=True),
    "prefix": dict(eos=None, include_eos=True, norm=True, batch_first=False, ins_cost=1.0, del_cost=1.0, sub_cost=1.0,
                   padding=-100, exclude_last=False, warn=True),
    "mer": dict(eos=None, include_eos=True, sub_avg=True, batch_first=False, norm=True, ins_cost=1.0, del_cost=1.0,
                sub_cost=1.0, reduction="mean", warn=True),
}


def _scale(case):
    return case.get("scale", SCALE)


def _opts_str(case, norm, costs):
    """every option of an error_rate / prefix_error_rates call, in positional order"""
    ci, cd, cs = (k / _scale(case) for k in (costs or case["costs"]))
    o = dict(eos=case["eos"], include_eos=case["include_eos"], norm=norm, batch_first=case["batch_first"],
             ins_cost=ci, del_cost=cd, sub_cost=cs)
    if case["api"] == "prefix":
        o.update(padding=case["padding"], exclude_last=case["exclude_last"])
    o["warn"] = case["warn"]
    return o


def _fn_str(case, norm=None, costs=None):
    """the callable (ref, hyp) -> tensor of the case's entry point"""
    import pydrobert.torch.functional as F
    import pydrobert.torch.modules as M

    norm = case["norm"] if norm is None else norm
    o = _opts_str(case, norm, costs)
    Fn = F.error_rate if case["api"] == "er" else F.prefix_error_rates
    Mod = M.ErrorRate if case["api"] == "er" else M.PrefixErrorRates
    entry = case.get("entry")
    if case.get("defaults"):  # documented defaults (er: include_eos=False; prefix: include_eos=True, padding=-100; ...)
        return lambda ref, hyp: Fn(ref, hyp, case["eos"], warn=case["warn"])
    if entry == "sparse":
        kw = base.sparse_kwargs(o, DEFAULTS[case["api"]], case.get("keep", ()))
        if case["module"]:
            return Mod(**kw)
        return lambda ref, hyp: Fn(ref, hyp, **kw)
    if entry == "script":
        return torch.jit.script(Mod(*o.values()))
    if entry == "trace":
        ex = torch.full((1, 1), 0 if case["eos"] is None else case["eos"], dtype=torch.long)
        return torch.jit.trace(Mod(*o.values()), (ex, ex))
    if entry == "script_fn":
        f = torch.jit.script(Fn)
        return lambda ref, hyp: f(ref, hyp, *o.values())
    if case["module"]:
        return Mod(*o.values())
    if case.get("kw"):
        rev = dict(reversed(list(o.items())))
        return lambda ref, hyp: Fn(hyp=hyp, ref=ref, **rev)
    return lambda ref, hyp: Fn(ref, hyp, *o.values())


def _call_str(case, ref, hyp, norm=None, costs=None):
    with warnings.catch_warnings():
        warnings.simplefilter("ignore")
        return _fn_str(case, norm, costs)(ref, hyp)


def _eff(case):
    """the options in force (a 'defaults' call pins them to the documented defaults)"""
    if not case.get("defaults"):
        return case
    if case["api"] == "er":
        return dict(case, include_eos=False, norm=True, batch_first=False, costs=[4, 4, 4], scale=SCALE)
    if case["api"] == "prefix":
        return dict(case, include_eos=True, norm=True, batch_first=False, costs=[4, 4, 4], padding=-100,
                    exclude_last=False, scale=SCALE)
    return dict(case, include_eos=True, norm=True, batch_first=False, costs=[4, 4, 4], sub_avg=True,
                reduction="mean", scale=SCALE)


def run_str(case, norm=None, costs=None):
    N, R, H = _dims(case)
    bf = _eff(case)["batch_first"]
    try:
        lay = case.get("layout") or ("contig", "contig")
        junk = 0 if case["eos"] is None else case["eos"]
        ref = base._tensor_l(case["ref"], R, bf, lay[0], junk)
        hyp = ref if (case.get("alias") and case["ref"] == case["hyp"]) else base._tensor_l(case["hyp"], H, bf, lay[1], junk)
        with warnings.catch_warnings():
            warnings.simplefilter("ignore")
            fn = _fn_str(case, norm, costs)
        sd = 1 if bf else 0
        out, flags = base.call_with_history(case, fn, [ref, hyp], [sd, sd])
        res = {"shape": list(out.shape), "dtype": str(out.dtype), "val": _canon(out)}
        res.update(flags)
        return res
    except Exception as e:
        return {"exc": exc_kind(e), "msg": str(e)[:200]}


# ---- the loss ---------------------------------------------------------------------------------


def _mdims(case):
    N = len(case["hyp"])
    M = len(case["hyp"][0])
    H = len(case["hyp"][0][0])
    R = len(case["ref"][0][0]) if case["ref3"] else len(case["ref"][0])
    return N, M, R, H


def _mer_tensors(case):
    N, M, R, H = _mdims(case)
    bf = _eff(case)["batch_first"]
    hyp = torch.tensor(case["hyp"], dtype=torch.long).reshape(N, M, H)
    hyp = hyp if bf else hyp.permute(2, 0, 1).contiguous()
    if case["ref3"]:
        ref = torch.tensor(case["ref"], dtype=torch.long).reshape(N, M, R)
        ref = ref if bf else ref.permute(2, 0, 1).contiguous()
    else:
        ref = torch.tensor(case["ref"], dtype=torch.long).reshape(N, R)
        ref = ref if bf else ref.t().contiguous()
    logp = torch.tensor(case["logp"], dtype=torch.float32).reshape(N, M)
    # 'mlayout': the same logical hyp / 3-D ref as a slice of a larger buffer ('offset') or with the batch and sample
    # dimensions swapped in storage ('swap') - non-contiguous inputs (raised RuntimeError before fix F36)
    ml = case.get("mlayout")

    def relayout(t):
        if ml and t.dim() == 2:
            return t.t().contiguous().t()
        if ml == "offset":
            buf = torch.zeros([d + 1 for d in t.shape], dtype=t.dtype)
            buf[1:, 1:, 1:] = t
            return buf[1:, 1:, 1:]
        if ml == "swap":
            d0, d1 = (0, 1) if bf else (1, 2)
            return t.transpose(d0, d1).contiguous().transpose(d0, d1)
        return t
    return relayout(logp), relayout(ref), relayout(hyp)


def _fn_mer(case):
    """the callable (log_probs, ref, hyp) -> tensor of the case's entry point"""
    import pydrobert.torch.functional as F
    import pydrobert.torch.modules as Mo

    ci, cd, cs = (k / _scale(case) for k in case["costs"])
    o = dict(eos=case["eos"], include_eos=case["include_eos"], sub_avg=case["sub_avg"], batch_first=case["batch_first"],
             norm=case["norm"], ins_cost=ci, del_cost=cd, sub_cost=cs, reduction=case["reduction"], warn=case["warn"])
    ctor = [v for k, v in o.items() if k != "warn"]
    warn = case["warn"]
    entry = case.get("entry")
    if case.get("defaults"):
        return lambda logp, ref, hyp: F.minimum_error_rate_loss(logp, ref, hyp, case["eos"], warn=warn)
    if entry == "sparse":
        kw = base.sparse_kwargs(o, DEFAULTS["mer"], case.get("keep", ()))
        if case["module"]:
            m = Mo.MinimumErrorRateLoss(**{k: v for k, v in kw.items() if k != "warn"})
            fw = {"warn": kw["warn"]} if "warn" in kw else {}
            return lambda logp, ref, hyp: m(logp, ref, hyp, **fw)
        return lambda logp, ref, hyp: F.minimum_error_rate_loss(logp, ref, hyp, **kw)
    if entry == "script":
        m = torch.jit.script(Mo.MinimumErrorRateLoss(*ctor))
        return lambda logp, ref, hyp: m(logp, ref, hyp, warn)
    if entry == "trace":  # the example has the rank of the real reference (2-D or 3-D), as a user's example would
        ex_ref = torch.zeros((2, 2, 2) if case["ref3"] else (2, 2), dtype=torch.long)
        m = torch.jit.trace(Mo.MinimumErrorRateLoss(*ctor), (torch.zeros(2, 2), ex_ref, torch.zeros(2, 2, 2, dtype=torch.long)))
        return m
    if entry == "script_fn":
        f = torch.jit.script(F.minimum_error_rate_loss)
        return lambda logp, ref, hyp: f(logp, ref, hyp, *o.values())
    if case["module"]:
        m = Mo.MinimumErrorRateLoss(*ctor)
        return lambda logp, ref, hyp: m(logp, ref, hyp, warn)
    if case.get("kw"):
        rev = dict(reversed(list(o.items())))
        return lambda logp, ref, hyp: F.minimum_error_rate_loss(hyp=hyp, ref=ref, log_probs=logp, **rev)
    return lambda logp, ref, hyp: F.minimum_error_rate_loss(logp, ref, hyp, *o.values())


def _call_mer(case, logp, ref, hyp):
    with warnings.catch_warnings():
        warnings.simplefilter("ignore")
        return _fn_mer(case)(logp, ref, hyp)


def run_mer(case):
    try:
        logp, ref, hyp = _mer_tensors(case)
        with warnings.catch_warnings():
            warnings.simplefilter("ignore")
            fn = _fn_mer(case)
        bf = _eff(case)["batch_first"]
        td = 2 if bf else 0  # the time dimension of hyp (and of a 3-D ref); a 2-D ref has it at 1 / 0
        out, flags = base.call_with_history(case, fn, [logp, ref, hyp], [1, td if case["ref3"] else (1 if bf else 0), td])
        if not bool(torch.isfinite(out).all()):
            return {"shape": list(out.shape), "dtype": str(out.dtype), "val": "nonfinite"}
        if out.dim() == 0:
            val = _canon(out.reshape(1))[0]
        else:
            val = _canon(out)
        res = {"shape": list(out.shape), "dtype": str(out.dtype), "val": val}
        res.update(flags)
        return res
    except Exception as e:
        return {"exc": exc_kind(e), "msg": str(e)[:200]}


def run_impl(case):
    return run_mer(case) if case["api"] == "mer" else run_str(case)


# ---- Coq terms --------------------------------------------------------------------------------


def _shape_ok(case, out):
    e = _eff(case)
    if case["api"] == "mer":
        N, M, R, H = _mdims(case)
        return out["shape"] == ([N, M] if e["reduction"] == "none" else [])
    N, R, H = _dims(case)
    if case["api"] == "er":
        return out["shape"] == [N]
    T = H + (0 if e["exclude_last"] else 1)
    return out["shape"] == ([N, T] if e["batch_first"] else [T, N])


def _weights(case):
    """softmax(log_probs, 1) as computed by torch in float64, rounded to 2^-WBITS (exact rationals)"""
    logp = torch.tensor(case["logp"], dtype=torch.float32).double()
    w = torch.softmax(logp, 1)
    return [[Fraction(round(float(x) * 2 ** WBITS), 2 ** WBITS) for x in row] for row in w.tolist()]


def _red(case):
    return {"mean": "RMean", "sum": "RSum", "none": "RNone"}[_eff(case)["reduction"]]


def _mer_args(case):
    e = _eff(case)
    N, M, R, H = _mdims(case)
    bf = e["batch_first"]

    def t3(x, W):  # x: N x M x W nested -> nested lists in the layout handed to the implementation
        if bf:
            return cl([cl([clz(s) for s in row]) for row in x])
        return cl([cl([clz([x[n][m][t] for m in range(M)]) for n in range(N)]) for t in range(W)])

    ref = f"(inr {t3(case['ref'], R)})" if case["ref3"] else f"(inl {_mat(case['ref'], R, bf)})"
    w = cl([cl([cq(x) for x in row]) for row in _weights(case)])
    return f"{_cfg(e)} {cb(e['sub_avg'])} {_red(case)} {cn(N)} {cn(M)} {w} {ref} {t3(case['hyp'], H)}"


def _obs_mer(case, out):
    if "exc" in out:
        return "OErr" if out["exc"] == "RuntimeError" else None
    if out["val"] == "nonfinite" or not _shape_ok(case, out) or out["dtype"] != "torch.float32" or "unstable" in out:
        return None
    if _eff(case)["reduction"] == "none":
        return "(OMat " + cl([cl([_q(x) for x in row]) for row in out["val"]]) + ")"
    return f"(OScalar {_q(out['val'])})"


def model_term(case, out):
    e = _eff(case)
    if case["api"] == "mer":
        obs = _obs_mer(case, out)
        if obs is None:
            return "false"
        return f"check_mer {_mer_args(case)} {cq(TOL)} {obs}"
    if ("exc" in out or out["val"] == "nonfinite" or not _shape_ok(case, out) or out["dtype"] != "torch.float32"
            or "unstable" in out):
        return "false"
    N, R, H = _dims(case)
    ref, hyp = _mat(case["ref"], R, e["batch_first"]), _mat(case["hyp"], H, e["batch_first"])
    if case["api"] == "er":
        return f"check_er {_cfg(e)} {cn(N)} {ref} {hyp} {cl([_q(x) for x in out['val']])}"
    obs = cl([cl([_q(x) for x in row]) for row in out["val"]])
    return f"check_prefix_er {_cfg(e)} {cn(N)} {ref} {hyp} {obs}"


def _spec_common(e):
    ki, kd, ks = e["costs"]
    eos = co(None if e["eos"] is None else cz(e["eos"]))
    return f"{eos} {cb(e['include_eos'])} {cb(e['norm'])} {cz(ki)} {cz(kd)} {cz(ks)}"


def spec_term(case, out):
    """Judge the implementation's output by C02/Spec.v alone: every value must be the edit count of SOME
    minimum-cost script between the sequences cut at eos (normalised / padded as the property says)."""
    e = _eff(case)
    if case["api"] == "mer":
        obs = _obs_mer(case, out)
        if obs is None:
            return "false"
        obs = obs.replace("OErr", "SErr").replace("OMat", "SMat").replace("OScalar", "SScalar")
        N, M, R, H = _mdims(case)
        pairs = cl([cl([f"({clz(case['ref'][n][m] if case['ref3'] else case['ref'][n])}, {clz(case['hyp'][n][m])})"
                        for m in range(M)]) for n in range(N)])
        w = cl([cl([cq(x) for x in row]) for row in _weights(case)])
        return f"spec_mer_core {_spec_common(e)} {cb(e['sub_avg'])} S{_red(case)[1:]} {cn(M)} {pairs} {w} {cq(TOL)} {obs}"
    if "exc" in out or out["val"] == "nonfinite" or not _shape_ok(case, out) or "unstable" in out:
        return "false"
    N, R, H = _dims(case)
    parts = []
    for n in range(N):
        r, h = clz(case["ref"][n]), clz(case["hyp"][n])
        if case["api"] == "er":
            parts.append(f"spec_pair_er_okb {_spec_common(e)} {r} {h} {_q(out['val'][n])}")
        else:
            colv = out["val"][n] if e["batch_first"] else [row[n] for row in out["val"]]
            parts.append(f"spec_pair_prefix_er_okb {_spec_common(e)} {cb(e['exclude_last'])} {cz(e['padding'])} "
                         f"{r} {h} {cl([_q(x) for x in colv])}")
    return "(" + " && ".join(parts or ["true"]) + ")"


def model_show(case):
    e = _eff(case)
    if case["api"] == "mer":
        return f"mer_loss {_mer_args(case)}"
    N, R, H = _dims(case)
    ref, hyp = _mat(case["ref"], R, e["batch_first"]), _mat(case["hyp"], H, e["batch_first"])
    fn = "error_rate" if case["api"] == "er" else "prefix_error_rates"
    return f"{fn} {_cfg(e)} {cn(N)} {ref} {hyp}"


# ---- python-side helpers (non-triviality rule, metamorphic relations) -----------------------------


def _pairs_of(case):
    if case["api"] != "mer":
        return list(zip(case["ref"], case["hyp"]))
    out = []
    for n, row in enumerate(case["hyp"]):
        for m, h in enumerate(row):
            out.append((case["ref"][n][m] if case["ref3"] else case["ref"][n], h))
    return out


def _lev_tables(a, b, ci, cd, cs):
    """(min cost, min edits among optimal, max edits among optimal) - used only to classify cases"""
    INF = float("inf")
    D = [[None] * (len(b) + 1) for _ in range(len(a) + 1)]
    for i in range(len(a) + 1):
        for j in range(len(b) + 1):
            if i == 0:
                D[i][j] = (j * ci, j, j)
                continue
            if j == 0:
                D[i][j] = (i * cd, i, i)
                continue
            neq = 0 if a[i - 1] == b[j - 1] else 1
            cands = [(D[i - 1][j][0] + cd, D[i - 1][j][1] + 1, D[i - 1][j][2] + 1),
                     (D[i][j - 1][0] + ci, D[i][j - 1][1] + 1, D[i][j - 1][2] + 1),
                     (D[i - 1][j - 1][0] + cs * neq, D[i - 1][j - 1][1] + neq, D[i - 1][j - 1][2] + neq)]
            v = min(c[0] for c in cands)
            best = [c for c in cands if c[0] == v]
            D[i][j] = (v, min(c[1] for c in best), max(c[2] for c in best))
    return D[len(a)][len(b)]


def classify(case):
    """nontrivial: some pair with both sequences non-empty after the cut and different;
    ambiguous: some pair whose minimum-cost alignments have different numbers of edits"""
    e = _eff(case)
    nontriv = amb = False
    for r, h in _pairs_of(case):
        a, b = _cut(r, e["eos"], e["include_eos"]), _cut(h, e["eos"], e["include_eos"])
        if a and b and a != b:
            nontriv = True
            _, lo, hi = _lev_tables(a, b, *e["costs"])
            if lo != hi:
                amb = True
    return nontriv, amb


def in_space(case):
    if case["api"] == "mer":
        N, M, R, H = _mdims(case)
        if N < 1 or M < 1 or R < 1 or H < 1:
            return False
        return all(k > 0 for k in case["costs"])
    N, R, H = _dims(case)
    if N < 1:
        return False
    if R == 0 or H == 0:
        if case["eos"] is not None:
            return False
        if H == 0 and case["api"] == "prefix" and _eff(case)["exclude_last"]:
            return False
    if case.get("alias") and case["ref"] != case["hyp"]:
        return False  # the same tensor object is handed over for both arguments
    for which, l in zip(("ref", "hyp"), case.get("layout") or ()):
        if l == "expand" and (any(x != case[which][0] for x in case[which]) or case.get("history")):
            return False  # a stride-0 broadcast denotes equal sequences and cannot be overwritten in place
    sc = _scale(case)
    if sc & (sc - 1) and len(set(case["costs"])) > 1 and not case.get("defaults"):
        return False  # unequal costs off the dyadic grid: float ties would differ from exact ties (regime E only)
    return all(k > 0 for k in case["costs"])


# ------------------------------------------------------------------------------------------
# metamorphic relations stated by the property, on the implementation
# ------------------------------------------------------------------------------------------


def _col_of(case, out, n):
    if case["api"] == "er":
        return [out["val"][n]]
    return out["val"][n] if _eff(case)["batch_first"] else [row[n] for row in out["val"]]


def _f32div(u, d):
    return Fraction(float(torch.tensor(float(u), dtype=torch.float32) / torch.tensor(float(d), dtype=torch.float32)))


def metamorphic_str(case, out, rng):
    fails = []
    if "exc" in out or out["val"] == "nonfinite" or case.get("defaults"):
        return fails
    if case.get("alias"):  # the variants change ref / hyp separately: two tensor objects from here on
        case = {k: v for k, v in case.items() if k != "alias"}
    if "expand" in (case.get("layout") or ()):  # ... and the stride-0 reference becomes an ordinary tensor
        case = dict(case, layout=[l if l != "expand" else "contig" for l in case["layout"]])
    N, R, H = _dims(case)
    # (1) a pair's result does not depend on the other pairs
    if N > 1:
        n = rng.randrange(N)
        c1 = dict(case, ref=[case["ref"][n]], hyp=[case["hyp"][n]])
        o1 = run_str(c1)
        if "exc" in o1 or o1["val"] == "nonfinite" or _col_of(c1, o1, 0) != _col_of(case, out, n):
            fails.append((f"pair {n} alone differs from pair {n} inside the batch", c1, o1))
    # (2) ... nor on tokens after its end-of-sequence
    if case["eos"] is not None:
        def refill(seq):
            if case["eos"] not in seq:
                return list(seq)
            i = seq.index(case["eos"])
            return list(seq[: i + 1]) + [rng.choice([case["eos"], 0, 1, 5, -3]) for _ in seq[i + 1:]]
        c2 = dict(case, ref=[refill(s) for s in case["ref"]], hyp=[refill(s) for s in case["hyp"]])
        if c2["ref"] != case["ref"] or c2["hyp"] != case["hyp"]:
            o2 = run_str(c2)
            if o2 != out:
                fails.append(("changing tokens after the first eos changes the result", c2, o2))
    # (3) "with normalisation it is that count divided by the reference length, with an empty reference scoring
    #     0 when the hypothesis (prefix) is also empty and 1 otherwise"
    if case["norm"]:
        ou = run_str(case, norm=False)
        if "exc" not in ou and ou["val"] != "nonfinite":
            for n in range(N):
                rl = len(_cut(case["ref"][n], case["eos"], case["include_eos"]))
                hl = len(_cut(case["hyp"][n], case["eos"], case["include_eos"]))
                got, un = _col_of(case, out, n), _col_of(case, ou, n)
                for k, (g, u) in enumerate(zip(got, un)):
                    if case["api"] == "prefix" and k >= hl + (0 if case["exclude_last"] else 1):
                        exp = Fraction(case["padding"])
                    elif rl == 0:
                        exp = Fraction(1 if (hl if case["api"] == "er" else k) > 0 else 0)
                    else:
                        exp = _f32div(Fraction(u), rl)
                    if Fraction(g) != exp:
                        fails.append((f"normalised value of pair {n} position {k} is not count / reference length "
                                      "(or the empty-reference convention)", case, out))
                        break
    # (4) the other layout gives the transposed result
    cT = dict(case, batch_first=not case["batch_first"])
    oT = run_str(cT)
    if "exc" in oT or oT["val"] == "nonfinite" or any(_col_of(cT, oT, n) != _col_of(case, out, n) for n in range(N)):
        fails.append(("the two batch layouts disagree", cT, oT))
    # (5) functional and module forms agree
    cM = dict(case, module=not case["module"])
    oM = run_str(cM)
    if oM != out:
        fails.append(("functional and module forms disagree", cM, oM))
    # (6) only the ratios of the costs matter (the set of minimum-cost alignments is the same)
    o2x = run_str(case, costs=[2 * k for k in case["costs"]])
    if o2x != out:
        fails.append(("doubling all three costs changes the error rate", dict(case, costs=[2 * k for k in case["costs"]]), o2x))
    # (7) "equals the plain Levenshtein distance whenever the three costs are equal": same as unit costs
    if len(set(case["costs"])) == 1 and case["costs"][0] != 4:
        o1c = run_str(case, costs=[4, 4, 4])
        if o1c != out:
            fails.append(("equal costs give a different result than unit costs", dict(case, costs=[4, 4, 4]), o1c))
    # (8) "the per-prefix variant gives the same for each hypothesis prefix": entry k = error_rate on hyp[:k]
    if case["api"] == "prefix" and H >= 1:
        k = rng.randint(1, H)
        ck = dict(case, api="er", exclude_last=False, hyp=[s[:k] for s in case["hyp"]])
        ok_ = run_str(ck)
        if "exc" not in ok_ and ok_["val"] != "nonfinite":
            for n in range(N):
                hl = len(_cut(case["hyp"][n], case["eos"], case["include_eos"]))
                if k <= hl and k < hl + (0 if case["exclude_last"] else 1) and k < len(_col_of(case, out, n)):
                    if _col_of(case, out, n)[k] != ok_["val"][n]:
                        fails.append((f"prefix entry {k} of pair {n} differs from error_rate on the first {k} "
                                      "hypothesis tokens", ck, ok_))
                        break
    return fails


def metamorphic_mer(case, out, rng):
    fails = []
    if "exc" in out or out["val"] == "nonfinite" or case.get("defaults"):
        return fails
    N, M, R, H = _mdims(case)
    none = out if case["reduction"] == "none" else run_mer(dict(case, reduction="none"))
    if "exc" in none or none["val"] == "nonfinite":
        fails.append(("reduction='none' fails where another reduction succeeds", dict(case, reduction="none"), none))
        return fails
    mat = [[Fraction(x) for x in row] for row in none["val"]]
    tol = float(TOL) * max(1, N * M)
    # (a) the reductions are the sum / the mean of the unreduced loss
    if case["reduction"] != "none":
        tot = sum(sum(row) for row in mat)
        exp = tot if case["reduction"] == "sum" else tot / (N * M)
        if abs(float(Fraction(out["val"]) - exp)) > tol:
            fails.append((f"reduction='{case['reduction']}' is not the {case['reduction']} of the unreduced loss", case, out))
    # (b) a 2-D reference is the same as that reference repeated for every sample
    if not case["ref3"]:
        c3 = dict(case, ref3=True, ref=[[list(r) for _ in range(M)] for r in case["ref"]])
        o3 = run_mer(c3)
        if o3 != out:
            fails.append(("2-D reference and the same reference repeated per sample (3-D) disagree", c3, o3))
    # (c) loss[n, m] = softmax(log_probs)[n, m] * (er[n, m] - mean_m er[n, :]) with er from error_rate itself
    sm = torch.softmax(torch.tensor(case["logp"], dtype=torch.float32).reshape(N, M), 1)
    for n in range(N):
        refs = [case["ref"][n][m] if case["ref3"] else case["ref"][n] for m in range(M)]
        ce = dict(case, api="er", module=False, kw=False, batch_first=True, ref=refs, hyp=case["hyp"][n])
        oe = run_str(ce)
        if "exc" in oe or oe["val"] == "nonfinite":
            fails.append((f"error_rate fails on the samples of batch element {n}", ce, oe))
            continue
        er = [float(Fraction(x)) for x in oe["val"]]
        mu = sum(er) / M if case["sub_avg"] else 0.0
        for m in range(M):
            exp = float(sm[n, m]) * (er[m] - mu)
            if abs(float(mat[n][m]) - exp) > float(TOL):
                fails.append((f"loss[{n},{m}] is not softmax * (error rate of sample {m} of element {n}"
                              + (" - mean)" if case["sub_avg"] else ")"), ce, oe))
                break
    # (d) the other layout
    cT = dict(case, batch_first=not case["batch_first"])
    oT = run_mer(cT)
    if oT != out:
        fails.append(("the two batch layouts disagree", cT, oT))
    # (e) functional and module forms agree
    cM = dict(case, module=not case["module"])
    oM = run_mer(cM)
    if oM != out:
        fails.append(("functional and module forms disagree", cM, oM))
    return fails


def metamorphic(case, out, rng):
    return metamorphic_mer(case, out, rng) if case["api"] == "mer" else metamorphic_str(case, out, rng)


# ------------------------------------------------------------------------------------------
# generators
# ------------------------------------------------------------------------------------------
COST_GRID = [2, 4, 6]  # 1/2, 1, 3/2
# ins + del == sub: a substitution (1 edit) ties with deletion + insertion (2 edits), so minimum-cost
# alignments with different numbers of edits exist and the tie-breaking is observable in the count
SUBTIE_COSTS = [[2, 2, 4], [4, 4, 8], [2, 6, 8], [6, 2, 8], [1, 3, 4], [3, 1, 4], [2, 4, 6], [4, 2, 6], [1, 1, 2],
                [3, 3, 6], [1, 2, 3], [2, 1, 3], [5, 3, 8], [1, 5, 6]]
# other ties (two substitutions == deletion + insertion, substitution == insertion, ...)
TIE_COSTS = [[4, 4, 2], [2, 4, 2], [4, 2, 2], [4, 8, 4], [8, 4, 4], [2, 2, 6], [6, 6, 4], [4, 4, 6], [4, 4, 12],
             [2, 6, 4], [6, 2, 4], [3, 5, 4], [2, 2, 1]]


def gen_exhaustive(chk):
    cases = []
    thorough = chk.tier == "thorough"
    flags = list(itertools.product([False, True], repeat=4))  # include_eos, norm, batch_first, exclude_last
    costs = list(itertools.product(COST_GRID, repeat=3))
    k = 0
    for R, H in itertools.product([1, 2, 3], repeat=2):
        pairs = _exh_pairs(R, H)
        chunk = 27 if thorough else 9
        batches = [pairs[i:i + chunk] for i in range(0, len(pairs), chunk)]
        for bi, b in enumerate(batches):
            if thorough:
                combos = [(f, c) for f in flags for c in costs]
            else:
                grid_ties = [(2, 2, 4), (2, 4, 6), (4, 2, 6)]
                combos = [(flags[(k + 7) % 16], costs[(k * 5 + 11) % 27]), (flags[k % 16], grid_ties[k % 3])]
            for j, (f, c) in enumerate(combos):
                k += 1
                api = "prefix" if (k + bi) % 2 else "er"
                if api == "er" and f[3]:
                    api = "prefix"
                cases.append(dict(api=api, module=(k % 5 == 0), ref=[list(p[0]) for p in b], hyp=[list(p[1]) for p in b],
                                  eos=2, include_eos=f[0], norm=f[1], batch_first=f[2], exclude_last=f[3],
                                  costs=list(c), padding=PADS[k % 4], warn=(k % 7 == 0),
                                  stream="exhaustive" if thorough else "exhaustive-slice"))
    if thorough:
        chk.extra["exhaustive"] = True
        chk.extra["exhaustive_scope"] = ("error_rate / prefix_error_rates: alphabet {0,1} + eos, tensor widths R,H in 1..3, "
                                         "every column in {0,1,eos}^R x {0,1,eos}^H (all eos placements and fillers), cost "
                                         "triples {1/2,1,3/2}^3, include_eos/norm/batch_first/exclude_last in all 16 settings")
    return cases


def _rand_costs(rng):
    u = rng.random()
    if u < 0.15:
        k = rng.randint(1, 12)
        return [k, k, k]
    if u < 0.6:
        return list(rng.choice(SUBTIE_COSTS))
    if u < 0.75:
        return list(rng.choice(TIE_COSTS))
    if u < 0.8:
        return [rng.choice([2, 4]) for _ in range(3)]
    return [rng.randint(1, 12) for _ in range(3)]


def _rand_alphabet(rng):
    V = rng.randint(1, 4)
    alphabet = list(range(V))
    eos_kind = rng.choice(["none", "outside", "outside", "inside", "negative", "negative"])
    eos = {"none": None, "outside": V + rng.randint(0, 2), "inside": rng.randrange(V),
           "negative": -rng.randint(1, 3)}[eos_kind]
    if eos_kind == "inside":
        alphabet = [a for a in alphabet if a != eos] or [eos + 1]
    return alphabet, eos, eos_kind


def gen_random_str(chk, n):
    rng = chk.rng
    cases = []
    for _ in range(n):
        alphabet, eos, eos_kind = _rand_alphabet(rng)
        N = rng.randint(1, 5)
        R, H = rng.randint(1, 8), rng.randint(1, 8)
        if rng.random() < 0.25:
            R = rng.randint(1, 2)
        if rng.random() < 0.25:
            H = rng.randint(1, 2)
        ref = [_rand_seq(rng, R, alphabet, eos) for _ in range(N)]
        hyp = [(_mutate(rng, r, alphabet, eos, H) if rng.random() < 0.6 else _rand_seq(rng, H, alphabet, eos)) for r in ref]
        api = rng.choice(["er", "prefix", "prefix"])
        defaults = rng.random() < 0.04
        cases.append(dict(api=api, module=rng.random() < 0.3, ref=ref, hyp=hyp, eos=eos,
                          include_eos=rng.random() < 0.5, norm=rng.random() < 0.5, batch_first=rng.random() < 0.5,
                          exclude_last=(api == "prefix" and rng.random() < 0.5), costs=_rand_costs(rng),
                          padding=rng.choice(PADS + [rng.randint(-9, 9)]), warn=rng.random() < 0.2,
                          kw=rng.random() < 0.5, defaults=defaults, stream="random", eos_kind=eos_kind))
    return cases


def gen_zero_width(chk, n):
    rng = chk.rng
    cases = []
    for _ in range(n):
        N = rng.randint(1, 3)
        R, H = rng.choice([(0, rng.randint(0, 3)), (rng.randint(1, 3), 0)])
        api = rng.choice(["er", "prefix"])
        cases.append(dict(api=api, module=False, ref=[[rng.randrange(2) for _ in range(R)] for _ in range(N)],
                          hyp=[[rng.randrange(2) for _ in range(H)] for _ in range(N)], eos=None,
                          include_eos=rng.random() < 0.5, norm=rng.random() < 0.5, batch_first=rng.random() < 0.5,
                          exclude_last=(api == "prefix" and H > 0 and rng.random() < 0.5),
                          costs=_rand_costs(rng), padding=-100, warn=False, stream="zero-width"))
    return cases


def gen_mer(chk, n):
    rng = chk.rng
    cases = []
    for i in range(n):
        alphabet, eos, eos_kind = _rand_alphabet(rng)
        N, M = rng.randint(1, 3), rng.randint(2, 4)
        if rng.random() < 0.06:
            M = 1  # malformed: "Batch must have at least two samples"
        R, H = rng.randint(1, 5), rng.randint(1, 5)
        ref3 = rng.random() < 0.5
        if ref3:
            ref = [[_rand_seq(rng, R, alphabet, eos) for _ in range(M)] for _ in range(N)]
            hyp = [[(_mutate(rng, r, alphabet, eos, H) if rng.random() < 0.5 else _rand_seq(rng, H, alphabet, eos))
                    for r in row] for row in ref]
        else:
            ref = [_rand_seq(rng, R, alphabet, eos) for _ in range(N)]
            hyp = [[(_mutate(rng, r, alphabet, eos, H) if rng.random() < 0.5 else _rand_seq(rng, H, alphabet, eos))
                    for _ in range(M)] for r in ref]
        logp = [[rng.randint(-2048, 2048) / 1024 for _ in range(M)] for _ in range(N)]
        regime = rng.choice(["unit", "unit", "joint", "mixed", "far"])
        if regime == "joint":     # joint log-probabilities of long hypotheses: every sample far below zero
            off = rng.choice([-90, -150, -400, -1200])
            logp = [[off + x for x in row] for row in logp]
        elif regime == "mixed":   # one row ordinary, the others far below zero; samples within a row close together
            logp = [[(0 if n == 0 else rng.choice([-120, -300])) + x for x in row] for n, row in enumerate(logp)]
        elif regime == "far":     # samples of one row hundreds of nats apart (all weight on one sample)
            logp = [[x * 100 for x in row] for row in logp]
        cases.append(dict(api="mer", module=rng.random() < 0.3, ref3=ref3, ref=ref, hyp=hyp, logp=logp, eos=eos,
                          include_eos=rng.random() < 0.5, norm=rng.random() < 0.5, batch_first=rng.random() < 0.5,
                          sub_avg=rng.random() < 0.5, reduction=rng.choice(["mean", "sum", "none", "none"]),
                          costs=_rand_costs(rng), warn=rng.random() < 0.2, kw=rng.random() < 0.5,
                          defaults=rng.random() < 0.04, padding=0, exclude_last=False,
                          stream="mer" if M >= 2 else "mer-malformed", eos_kind=eos_kind))
    return cases


# ---- robustness streams (notes/AUDIT_GUIDE.md); the machinery is props.c01's -------------------------


def gen_eos_mix(chk, n):
    """batch interaction of the include_eos length fix-up (see props.c01.gen_eos_mix), with C02's cost triples"""
    cases = []
    for c in base.gen_eos_mix(chk, n):
        c["api"] = "er" if c["api"] == "ed" else "prefix"
        c["costs"] = _rand_costs(chk.rng)
        c["norm"] = chk.rng.random() < 0.5
        c["defaults"] = False
        cases.append(c)
    return cases


def gen_sparse(chk, n):
    """calls that leave out every option sitting on its documented default: error_rate (include_eos=False, norm=True),
    prefix_error_rates (include_eos=True, norm=True, padding=-100), minimum_error_rate_loss (include_eos=True,
    sub_avg=True, norm=True, reduction='mean'); functional keywords and module constructor keywords"""
    rng = chk.rng
    cases = []
    for i in range(n):
        V = rng.randint(1, 3)
        eos = rng.choice([None, V, V, -1, 0])
        alphabet = [a + (1 if eos == 0 else 0) for a in range(V)]
        if i % 4 == 3:
            N, M, R, H = rng.randint(1, 3), rng.randint(2, 3), rng.randint(1, 5), rng.randint(2, 5)
            ref3 = rng.random() < 0.5
            if ref3:
                ref = [[_rand_seq(rng, R, alphabet, eos, 0.15) for _ in range(M)] for _ in range(N)]
                hyp = [[_rand_seq(rng, H, alphabet, eos, 0.15) for _ in row] for row in ref]
            else:
                ref = [_rand_seq(rng, R, alphabet, eos, 0.15) for _ in range(N)]
                hyp = [[(_mutate(rng, r, alphabet, eos, H) if rng.random() < 0.5 else _rand_seq(rng, H, alphabet, eos, 0.15))
                        for _ in range(M)] for r in ref]
            f = base._sparse_fields(rng, "mer", DEFAULTS)
            f["sub_avg"] = rng.random() < 0.6
            f["reduction"] = "mean" if rng.random() < 0.6 else rng.choice(["sum", "none"])
            f["costs"] = [4, 4, 4] if rng.random() < 0.5 else _rand_costs(rng)
            cases.append(dict(api="mer", module=rng.random() < 0.5, kw=False, ref3=ref3, ref=ref, hyp=hyp,
                              logp=[[rng.randint(-2048, 2048) / 1024 for _ in range(M)] for _ in range(N)], eos=eos,
                              entry="sparse", defaults=False, stream="sparse-defaults", **f))
            continue
        N, R, H = rng.randint(1, 4), rng.randint(1, 6), rng.randint(2, 6)
        ref = [_rand_seq(rng, R, alphabet, eos, 0.15) for _ in range(N)]
        hyp = [(_mutate(rng, r, alphabet, eos, H) if rng.random() < 0.4 else _rand_seq(rng, H, alphabet, eos, 0.15))
               for r in ref]
        api = rng.choice(["er", "prefix", "prefix"])
        f = base._sparse_fields(rng, api, DEFAULTS)
        f["costs"] = [4, 4, 4] if rng.random() < 0.5 else _rand_costs(rng)
        cases.append(dict(api=api, module=rng.random() < 0.5, kw=False, ref=ref, hyp=hyp, eos=eos, entry="sparse",
                          defaults=False, stream="sparse-defaults", **f))
    return cases


def gen_entry_layout(chk, n_str, n_mer):
    """memory layouts, scripted / traced modules, scripted functions, call history (same callable and same tensor objects
    re-used after an in-place overwrite), one tensor object for both arguments, unusual token ids"""
    rng = chk.rng
    cases = []
    for c in gen_random_str(chk, n_str):
        c["defaults"] = False
        c = base._decorate(rng, c, defaults=DEFAULTS)
        c["stream"] = "entry-layout"
        cases.append(c)
    for c in gen_mer(chk, n_mer):
        if c["stream"] != "mer":
            continue
        c["defaults"] = False
        c["entry"] = rng.choice(["script", "trace", "script_fn", "script_fn", "sparse", None])
        if c["entry"] == "sparse":
            c["keep"] = [k for k in DEFAULTS["mer"] if rng.random() < 0.3]
        c["history"] = rng.random() < 0.5
        c["mlayout"] = rng.choice([None, "offset", "swap", "swap"])
        c["stream"] = "mer-entry"
        cases.append(c)
    return cases


def gen_numeric(chk, n):
    """cost magnitudes: the triple scaled by 2^10..2^20 or 2^-8..2^-14, three costs up to 12 binary orders apart (the
    alignments and their edit counts are unchanged, every float32 step stays exact); equal costs off the dyadic grid
    (0.1, 0.3, 1/3, 1.1: the uniform path runs on unit costs, so counts are exact)"""
    rng = chk.rng
    cases = []
    for c in gen_random_str(chk, n):
        c["defaults"] = False
        kind = rng.choice(["big", "small", "spread", "offgrid"])
        uni = len(set(c["costs"])) == 1
        if kind == "big":
            e = rng.choice([10, 16, 20])
            c["costs"] = [k * 2 ** e for k in c["costs"]]
        elif kind == "small":
            c["scale"] = SCALE * 2 ** rng.choice([8, 14])
        elif kind == "spread":
            c["scale"] = SCALE * 2 ** 6
            c["costs"] = [k * 2 ** (0 if uni else rng.choice([0, 6, 12])) for k in c["costs"]]
        else:
            k = rng.randint(1, 12)
            c["costs"] = [k, k, k]
            c["scale"] = rng.choice([3, 7, 10, 10])
        c["numeric"] = kind
        c["stream"] = "numeric"
        cases.append(c)
    return cases


def gen_long(chk, n_ref, n_hyp):
    """size-dependent code paths: padded reference / hypothesis widths around and above 256, unequal costs (the mistakes
    path; the equal-cost path is C01's table and is covered there).  One pair really is that long, the others end early."""
    rng = chk.rng
    cases = []
    sizes = [255, 256, 257, 257, 258, 260, 300]
    for i in range(n_ref + n_hyp):
        long_ref = i < n_ref
        W = sizes[i % len(sizes)] if i < len(sizes) else rng.choice(sizes)
        alphabet = [0, 1, 2]
        eos = rng.choice([None, 9, 9, 9, -1])
        w = rng.randint(1, 4)
        R, H = (W, w) if long_ref else (w, W)
        N = rng.randint(2, 3)

        def seq(width, really_long):
            if really_long or eos is None:
                L = width if eos is None else width - rng.randint(0, 3)
                return [rng.choice(alphabet) for _ in range(L)] + [eos] * (width - L)
            if width <= 8:
                return _rand_seq(rng, width, alphabet, eos, 0.3)
            L = rng.randint(0, 6)  # ends early, garbage (eos included) up to the padded width
            return [rng.choice(alphabet) for _ in range(L)] + [eos] + [rng.choice(alphabet + [eos]) for _ in range(width - L - 1)]
        ref = [seq(R, long_ref and n == 0) for n in range(N)]
        hyp = [seq(H, (not long_ref) and n == 0) for n in range(N)]
        # the edit COUNT only reacts to a cost slip when it tips a choice: tokens foreign to the other side (substitute,
        # or delete + insert?) and a substitution price one quarter off ins + del
        for seqs in ((hyp,) if long_ref else (ref,)):
            for s_ in seqs:
                for t in range(len(s_)):
                    if s_[t] != eos and rng.random() < 0.5:
                        s_[t] = rng.choice([5, 6])
        api = rng.choice(["er", "prefix"])
        if rng.random() < 0.75:
            ci, cd = rng.randint(1, 6), rng.randint(1, 6)
            costs = [ci, cd, min(12, max(1, ci + cd + rng.choice([-1, 1])))]
        else:
            costs = _rand_costs(rng)
        while len(set(costs)) == 1:
            costs = _rand_costs(rng)
        cases.append(dict(api=api, module=rng.random() < 0.3, kw=rng.random() < 0.5, ref=ref, hyp=hyp, eos=eos,
                          include_eos=rng.random() < 0.5, norm=rng.random() < 0.5, batch_first=rng.random() < 0.5,
                          exclude_last=(api == "prefix" and rng.random() < 0.5), costs=costs, padding=rng.choice(PADS),
                          warn=False, defaults=False, slow=True, stream="long-ref" if long_ref else "long-hyp"))
    return cases


def gen_block(chk, n):
    """size-dependent code paths at block boundaries (see props.c01.gen_block): reference / hypothesis widths at and next to
    powers of two, the first pair filling the padded width with a hypothesis that is an edited copy of its reference (the
    best alignment runs down the diagonal to the last cell), unequal costs (the mistakes path)."""
    rng = chk.rng
    cases = []
    for c in base.gen_block(chk, n):
        ci, cd = rng.randint(1, 6), rng.randint(1, 6)
        costs = [ci, cd, min(12, max(1, ci + cd + rng.choice([-1, 1, -2])))]
        while len(set(costs)) == 1:
            costs = _rand_costs(rng)
        api = "er" if rng.random() < 0.7 else "prefix"
        c.pop("long", None)
        c.update(api=api, costs=costs, exclude_last=(api == "prefix" and rng.random() < 0.5), defaults=False, slow=True,
                 stream="block-boundary")
        cases.append(c)
    return cases


def gen_cases(chk):
    cases = gen_exhaustive(chk)
    for c in load_corpus("C02"):
        c = dict(c.get("case", c))
        c["stream"] = "corpus"
        cases.append(c)
    thorough = chk.tier == "thorough"
    cases += gen_random_str(chk, 20000 if thorough else 1600)
    cases += gen_zero_width(chk, 400 if thorough else 60)
    cases += gen_mer(chk, 6000 if thorough else 500)
    # robustness streams: drawn after the older streams so that those stay what they were for a given seed
    cases += gen_eos_mix(chk, 1500 if thorough else 130)
    cases += gen_sparse(chk, 2000 if thorough else 200)
    cases += gen_entry_layout(chk, 3000 if thorough else 220, 600 if thorough else 60)
    cases += gen_numeric(chk, 1200 if thorough else 100)
    cases += gen_long(chk, 70 if thorough else 16, 35 if thorough else 8)
    cases += gen_block(chk, 36 if thorough else 10)
    return [c for c in cases if in_space(c)]


# ------------------------------------------------------------------------------------------
# shrinking, judging
# ------------------------------------------------------------------------------------------


def _strip(case):
    return {k: v for k, v in case.items() if k not in ("stream", "eos_kind")}


def _fails(chk, case):
    if not in_space(case):
        return False
    if case["api"] != "mer" and max(_dims(case)[1:]) > 40 and len(set(case["costs"])) == 1:
        return False  # equal costs on a long batch: C01's table, cubic in the width inside Coq - not explored
    out = run_impl(case)
    return not coq_eval_bools(chk.workdir, IMPORTS, [model_term(case, out)], tag="shr")[0]


def _cands_mer(case):
    N, M, R, H = _mdims(case)
    for key in ("history", "entry", "mlayout"):
        if case.get(key):
            yield {k: v for k, v in case.items() if k != key}
    for n in range(N):
        if N > 1:
            yield dict(case, **{k: case[k][:n] + case[k][n + 1:] for k in ("ref", "hyp", "logp")})
    for m in range(M):
        if M > 2:
            d = dict(case, hyp=[row[:m] + row[m + 1:] for row in case["hyp"]],
                     logp=[row[:m] + row[m + 1:] for row in case["logp"]])
            if case["ref3"]:
                d["ref"] = [row[:m] + row[m + 1:] for row in case["ref"]]
            yield d
    if H > 1:
        yield dict(case, hyp=[[s[:-1] for s in row] for row in case["hyp"]])
    if R > 1:
        if case["ref3"]:
            yield dict(case, ref=[[s[:-1] for s in row] for row in case["ref"]])
        else:
            yield dict(case, ref=[s[:-1] for s in case["ref"]])
    for key in ("norm", "batch_first", "include_eos", "module", "warn", "kw", "sub_avg", "defaults"):
        if case.get(key):
            yield dict(case, **{key: False})
    if case["reduction"] != "none":
        yield dict(case, reduction="none")
    if case["costs"] != [4, 4, 4]:
        yield dict(case, costs=[4, 4, 4])
    if any(x != 0 for row in case["logp"] for x in row):
        yield dict(case, logp=[[0.0 for _ in row] for row in case["logp"]])


def _cands(case):
    if case["api"] == "mer":
        yield from _cands_mer(case)
        return
    if case.get("defaults"):
        yield dict(_eff(case), defaults=False)
    yield from base._cands(case)


def _pair_spec_term(case, out, n):
    """Spec verdict on pair n of a (long) batch, on the canonicalised input: reference cut after its first eos, a long
    hypothesis likewise (the prefix column cut to the rows that exist for it).  None when the pair itself is long."""
    e = _eff(case)
    r, h, eos = list(case["ref"][n]), list(case["hyp"][n]), case["eos"]
    col = _col_of(case, out, n)
    if eos is not None and eos in r:
        r = r[: r.index(eos) + 1]
    if len(h) > 16 and eos is not None and eos in h:
        h = h[: h.index(eos) + 1]
        if case["api"] == "prefix":
            col = col[: len(h) + (0 if e["exclude_last"] else 1)]
    if len(r) > 16 or len(h) > 16 or min(len(r), len(h)) > 7:  # the spec's recursion is exponential in the shorter side
        return None
    if case["api"] == "er":
        return f"spec_pair_er_okb {_spec_common(e)} {clz(r)} {clz(h)} {_q(col[0])}"
    return (f"spec_pair_prefix_er_okb {_spec_common(e)} {cb(e['exclude_last'])} {cz(e['padding'])} {clz(r)} {clz(h)} "
            f"{cl([_q(x) for x in col])}")


def _pair_range_violation(case, out, n):
    """error_rate only (one value per pair): None when the value is the count k (norm: the float32 quotient k / |ref|, or
    the empty-reference convention) of some k between the fewest and the most edits among minimum-cost alignments."""
    if case["api"] != "er":
        return None
    e = _eff(case)
    a = _cut(case["ref"][n], e["eos"], e["include_eos"])
    b = _cut(case["hyp"][n], e["eos"], e["include_eos"])
    try:
        v = Fraction(_col_of(case, out, n)[0])
    except Exception:
        return None
    _, lo, hi = _lev_tables(a, b, *e["costs"])
    if e["norm"]:
        if not a:
            want = Fraction(0 if not b else 1)
            return None if v == want else f"empty reference: reported {float(v)}, convention says {int(want)}"
        ok = any(v == _f32div(k, len(a)) for k in range(lo, hi + 1))
        return None if ok else (f"reported {float(v)} = {float(v) * len(a):.4f} / {len(a)}; optimal alignments have "
                                f"{lo}..{hi} edits")
    return None if (v.denominator == 1 and lo <= v <= hi) else f"reported {float(v)}; optimal alignments have {lo}..{hi} edits"


def judge_long(chk, case, out):
    """A batch wider than 255: C02.Spec's set-valued recursion is not evaluable on the long pair; the short pairs of the
    batch are judged by the spec on their canonicalised columns (the property: a pair's value depends on nothing else)."""
    rec = {"case": case, "impl": out, "theorems_at_stake": THEOREMS,
           "correspondence": "corr:C02:batch with a padded width above 255", "spec_accepts_impl": None}
    if "exc" in out or out["val"] == "nonfinite" or not _shape_ok(case, out):
        rec["what"] = "implementation raised / returned a non-finite value or a wrong shape on a batch wider than 255"
        return rec, False
    idx = [(n, t) for n in range(len(case["ref"])) for t in [_pair_spec_term(case, out, n)] if t]
    res = coq_eval_bools(chk.workdir, IMPORTS, [t for _, t in idx], tag="longspec") if idx else []
    wrong = [n for (n, _), ok in zip(idx, res) if not ok]
    rec["pairs_rejected_by_spec"] = wrong
    rec["pairs_judged_by_spec"] = [n for n, _ in idx]
    if not wrong:
        # the pairs the spec's recursion cannot evaluate: a NECESSARY condition of the property, polynomial to compute -
        # the reported count lies between the fewest and the most edits of the minimum-cost alignments
        # (c02_error_rate_within_min_max is the model-side theorem; here it is applied to the implementation's value)
        judged = {n for n, _ in idx}
        out_of_range = [(n, w) for n in range(len(case["ref"])) if n not in judged
                        for w in [_pair_range_violation(case, out, n)] if w]
        if out_of_range:
            rec["pairs_outside_min_max_edits"] = [{"pair": n, "why": w} for n, w in out_of_range]
            rec["what"] = ("pair(s) %s of a wide batch report a value that is not between the fewest and the most edits of "
                           "the pair's minimum-cost alignments (python DP over the pair's columns cut at eos): %s"
                           % ([n for n, _ in out_of_range], out_of_range[0][1]))
            return rec, False
    if wrong:
        rec["what"] = ("pair(s) %s of a batch wider than 255 report a value that is not the edit count of any minimum-cost "
                       "alignment of the pair (C02.Spec on the pair's columns cut after eos)" % wrong)
        return rec, False
    rec["what"] = ("batch wider than 255 differs from the model; the short pairs are accepted by the spec, the long pair "
                   "cannot be judged by the spec")
    return rec, True


def judge(chk, case, out):
    spec_ok = coq_eval_bools(chk.workdir, IMPORTS, [spec_term(case, out)], tag="spec")[0]
    rec = {"case": case, "impl": out,
           "model": coq_eval_print(chk.workdir, IMPORTS, model_show(case)),
           "scale": "model values: Cost m = m edits, Ratio m d = m/d, Lit z = z; costs are in quarter units",
           "spec_accepts_impl": spec_ok,
           "correspondence": "corr:C02:error_rate/prefix_error_rates/minimum_error_rate_loss (+ module forms)",
           "theorems_at_stake": THEOREMS}
    if spec_ok:
        rec["what"] = ("implementation differs from the model (tie-breaking changed?) but every value is the edit count "
                       "of some minimum-cost alignment according to Spec.er_okb")
    elif "exc" in out and not (case["api"] == "mer" and out["exc"] == "RuntimeError"):
        rec["what"] = f"implementation raised {out['exc']} on an input inside the property's input space"
    elif case["api"] == "mer":
        rec["what"] = ("minimum_error_rate_loss differs from softmax(log_probs) * (error rate - mean) for every choice of "
                       "admissible error rates (edit counts of minimum-cost alignments), or has the wrong shape / raises")
    else:
        rec["what"] = ("reported error rate is not the number of edits of ANY minimum-cost alignment (Spec.opt_counts on "
                       "the sequences cut at the first eos), or breaks the normalisation / padding rule or the shape")
    return rec, spec_ok


def run(chk, cases=None):
    chk.rule = ("case = one call of error_rate / prefix_error_rates / minimum_error_rate_loss (functional or module form) "
                "on a batch, costs k/4; string outputs are matched entry by entry inside Coq against PV.C02.Model (Cost: "
                "exact count; Ratio: 2^-23 bracket of the one float division; Lit: exact), the loss against mer_loss on "
                "torch's float64 softmax rounded to 2^-24 with absolute tolerance 5e-5. non-trivial = some pair whose two "
                "sequences, cut at the first eos, are both non-empty and differ; 'ambiguous' (histogram) = some pair whose "
                "minimum-cost alignments have different numbers of edits, i.e. tie-breaking is observable")
    chk.assumptions += ["costs are on the dyadic grid k/4 (k<=12), lengths <= 8: every float32 operation of the two tables "
                        "is exact (regime E); the final division is one correctly rounded operation",
                        "loss: softmax, mean and products are float32 in the implementation and exact rationals in the "
                        "model (regime T, tolerance 5e-5; a wrong pairing of samples moves a value by >= 1e-3 in the "
                        "generated cases); log_probs in [-2, 2], shifted by -90..-1200 (joint/mixed regimes) or scaled by 100 (far regime)",
                        "zero-width tensors are in the input space only without eos (with eos _lens_from_eos raises)",
                        "the batch dimension of the model is a map over columns; independence across the batch is covered "
                        "by the correspondence and the single-column metamorphic relation"]
    replaying = cases is not None
    cases = cases if cases is not None else gen_cases(chk)
    outs, terms, streams = [], [], []
    for c in cases:
        stream = c.pop("stream", "random")
        eos_kind = c.pop("eos_kind", None)
        streams.append(stream)
        out = run_impl(c)
        outs.append(out)
        terms.append(model_term(c, out))
        nontriv, amb = classify(c)
        chk.note_case(c, nontriv, stream)
        e = _eff(c)
        chk.count("api=" + c["api"] + ("/module" if c["module"] else "") + ("/defaults" if c.get("defaults") else ""))
        chk.count("flags=" + "".join(ch if e.get(k) else "-" for ch, k in
                                     (("E", "include_eos"), ("N", "norm"), ("B", "batch_first"), ("X", "exclude_last"))))
        chk.count("costs=" + ("uniform" if len(set(e["costs"])) == 1 else "nonuniform"))
        chk.count("ambiguous=" + str(amb))
        chk.count("eos=" + (eos_kind or ("none" if c["eos"] is None else "given")))
        chk.count("outcome=" + ("exc:" + out["exc"] if "exc" in out else "ok"))
        if c["api"] == "mer":
            N, M, R, H = _mdims(c)
            chk.count("mer:M=%d" % M)
            chk.count("mer:ref3=" + str(c["ref3"]))
            chk.count("mer:reduction=" + e["reduction"])
            chk.count("mer:sub_avg=" + str(e["sub_avg"]))
        else:
            N, R, H = _dims(c)
            chk.count("N=%d" % N)
            chk.count("R=%d" % R)
            chk.count("H=%d" % H)
        prs = _pairs_of(c)
        chk.count("pairs", len(prs))
        chk.count("empty_ref_pairs", sum(1 for r, _ in prs if not _cut(r, e["eos"], e["include_eos"])))
        chk.count("empty_hyp_pairs", sum(1 for _, h in prs if not _cut(h, e["eos"], e["include_eos"])))
        chk.count("entry=" + (c.get("entry") or "legacy"))
        chk.count("layout=" + "/".join(c.get("layout") or ("contig", "contig")))
        for key in ("history", "alias", "ids", "numeric", "mlayout"):
            if c.get(key):
                chk.count(key + "=" + str(c[key]))
        if c.get("scale"):
            chk.count("scale=%d" % c["scale"])
        if c["api"] != "mer" and c["eos"] is not None and e["include_eos"] and len(c["ref"]) > 1:
            noe_h = [c["eos"] not in h for h in c["hyp"]]
            if any(noe_h[m] and any(c["eos"] not in c["ref"][n] and not noe_h[n] for n in range(len(noe_h)) if n != m)
                   for m in range(len(noe_h))):
                chk.count("eos_fixup_interaction(hyp w/o eos + other pair: ref w/o eos, hyp with)")
        if c["api"] == "prefix" and c["eos"] is not None and e["include_eos"] and any(c["eos"] in h[:-1] for h in c["hyp"]):
            chk.count("prefix_include_eos_with_eos_before_last_row")
    # the Coq evaluation runs beside the metamorphic phase; batches with a width above 255 get their own shards
    from concurrent.futures import ThreadPoolExecutor
    slow = [i for i, c in enumerate(cases) if c.get("slow")]
    slow_set = set(slow)
    fast = [i for i in range(len(cases)) if i not in slow_set]
    pool = ThreadPoolExecutor(max_workers=2)
    fut_fast = pool.submit(coq_eval_bools, chk.workdir, IMPORTS, [terms[i] for i in fast])
    fut_slow = pool.submit(coq_eval_bools, chk.workdir, IMPORTS, [terms[i] for i in slow], 1, None, 1800, "long")

    mrng = _random.Random(chk.seed + 1)
    meta_n = 0
    meta_fail = []
    NEW = ("eos-mix", "sparse-defaults", "entry-layout", "mer-entry", "numeric", "long-ref", "long-hyp")
    for i, c in enumerate(cases):
        if not replaying and (c.get("slow") or c.get("entry") in base.JIT
                              or streams[i] in NEW and i % (8 if chk.tier != "thorough" else 24) != 0):
            continue
        if (replaying or chk.tier != "thorough" and streams[i] in ("random", "corpus", "mer")
                or i % (3 if streams[i] != "exhaustive" else 12) == 0):
            meta_n += 1
            for what, vc, vo in metamorphic(c, outs[i], mrng):
                meta_fail.append((i, what, vc, vo))
    chk.extra["metamorphic_cases"] = meta_n
    chk.extra["metamorphic_failures"] = len(meta_fail)

    res = [True] * len(cases)
    for i, ok in zip(fast, fut_fast.result()):
        res[i] = ok
    for i, ok in zip(slow, fut_slow.result()):
        res[i] = ok
    pool.shutdown()
    bad = [i for i, ok in enumerate(res) if not ok]
    chk.extra["model_disagreements"] = len(bad)

    def _wide(c):
        return c["api"] != "mer" and max(_dims(c)[1:]) > 40

    found_concrete = False
    bad.sort(key=lambda i: (_wide(cases[i]), i))  # small inputs first
    wide_bad = [i for i in bad if _wide(cases[i]) and "exc" not in outs[i] and outs[i]["val"] != "nonfinite"
                and _shape_ok(cases[i], outs[i])]
    if wide_bad and len(wide_bad) == len(bad):  # only wide batches disagree: look for one with a spec-rejected short pair
        idx = [(i, t) for i in wide_bad[:40] for n in range(len(cases[i]["ref"]))
               for t in [_pair_spec_term(cases[i], outs[i], n)] if t]
        rej = coq_eval_bools(chk.workdir, IMPORTS, [t for _, t in idx], tag="widespec") if idx else []
        hit = [i for (i, _), ok in zip(idx, rej) if not ok]
        if hit:
            bad.remove(hit[0])
            bad.insert(0, hit[0])
    for i in bad[:4]:
        if _wide(cases[i]) and found_concrete:
            continue
        # a wide batch is judged as it is: its short pairs are what the spec can evaluate
        case = cases[i] if _wide(cases[i]) else shrink(cases[i], lambda c: _fails(chk, c), _cands, budget=60)
        out = run_impl(case)
        rec, spec_ok = judge_long(chk, case, out) if _wide(case) else judge(chk, case, out)
        if not spec_ok:
            found_concrete = True
            chk.report(rec)
    if bad and not found_concrete:
        small = [i for i in bad if not _wide(cases[i])]
        sres = coq_eval_bools(chk.workdir, IMPORTS, [spec_term(cases[i], outs[i]) for i in small], tag="specall")
        hit = [small[j] for j, ok in enumerate(sres) if not ok]
        if hit:
            rec, _ = judge(chk, cases[hit[0]], outs[hit[0]])
            chk.report(rec)
            found_concrete = True
    for i, what, vc, vo in meta_fail[:3]:
        found_concrete = True
        chk.report({"case": cases[i], "impl": outs[i], "variant_case": _strip(vc), "variant_impl": vo,
                    "what": "metamorphic relation of the property fails on the implementation: " + what,
                    "correspondence": "corr:C02:metamorphic", "theorems_at_stake": THEOREMS})
    if bad and not found_concrete:
        rec, _ = (judge_long if _wide(cases[bad[0]]) else judge)(chk, cases[bad[0]], outs[bad[0]])
        chk.report(rec, no_failing_input=True)
    from props.c02_tie import source_tie  # source tie: the translated _string_matching(return_mistakes=True) / error_rate
    source_tie(chk, cases, outs)
    from props.c02_tie import source_tieB  # second tie: the translated minimum_error_rate_loss (unit C02BSrc)
    source_tieB(chk, cases, outs)


def replay(chk, path):
    rec = json.loads(open(path).read())
    todo = [_strip(dict(rec["case"]))]
    if "variant_case" in rec:
        todo.append(_strip(dict(rec["variant_case"])))
    run(chk, todo)
