(* MiniTorch, unit C17Src - facts about the operations of OpsC17 (no new definitions of semantics):
   the operations on tensors given by their constructors, Python slices of lists, stack / cumsum. *)
From Coq Require Import List ZArith Bool Arith Lia ZifyBool ZifyNat.
From PV Require Import MiniTorch.OpsC17.
Import ListNotations.
Local Open Scope Z_scope.

(* ---- the operations on constructor forms (all by computation) ---- *)
Lemma zeros1_1 : zeros1 1 = Some (L1 [0]).
Proof. reflexivity. Qed.
Lemma ucc_L1 : forall v, unique_consecutive_counts (L1 v) = Some (L1 (map fst (runs v)), L1 (map snd (runs v))).
Proof. reflexivity. Qed.
Lemma cat1_2 : forall a b, cat1 [L1 a; L1 b] = Some (a ++ b).
Proof. intros. cbn. now rewrite app_nil_r. Qed.
Lemma cumsum_L1 : forall v, cumsum (L1 v) 0 = Some (L1 (cumsum_from 0 v)).
Proof. reflexivity. Qed.
Lemma get_slice1_L1 : forall v a b, get_slice1 (L1 v) a b = Some (L1 (slice_list a b v)).
Proof. reflexivity. Qed.
Lemma stack_last_3 : forall a b c,
  stack_last [L1 a; L1 b; L1 c]
  = if (Nat.eqb (length b) (length a) && (Nat.eqb (length c) (length a) && true))%bool
    then Some (L2 3 (transpose (length a) [a; b; c])) else None.
Proof. reflexivity. Qed.
Lemma ndim_L1 : forall v, ndim (L1 v) = 1%nat. Proof. reflexivity. Qed.
Lemma ndim_L2 : forall w rows, ndim (L2 w rows) = 2%nat. Proof. reflexivity. Qed.
Lemma size_L2_0 : forall w rows, size (L2 w rows) 0 = Some (length rows). Proof. reflexivity. Qed.
Lemma size_L2_1 : forall w rows, size (L2 w rows) 1 = Some w. Proof. reflexivity. Qed.
Lemma size_L1_0 : forall v, size (L1 v) 0 = Some (length v). Proof. reflexivity. Qed.
Lemma shape_L2 : forall w rows, shape (L2 w rows) = [length rows; w]. Proof. reflexivity. Qed.
Lemma shape_L1 : forall v, shape (L1 v) = [length v]. Proof. reflexivity. Qed.
Lemma numel_L1 : forall v, numel (L1 v) = length v.
Proof. intros. unfold numel. cbn. lia. Qed.
Lemma get_block_L2 : forall w rows a b c d,
  get_block (L2 w rows) a b c d = Some (L2 (slice_len c d w) (map (slice_list c d) (slice_list a b rows))).
Proof. reflexivity. Qed.
Lemma compare_L2_Z : forall k w rows z,
  compare k (OT (L2 w rows)) (OZ z) = Some (B2 w (map (map (fun e => zcmp k e z)) rows)).
Proof. intros. destruct w as [|[|w]]; reflexivity. Qed.
Lemma compare_L1_L1 : forall k x y,
  compare k (OT (L1 x)) (OT (L1 y)) = if Nat.eqb (length x) (length y) then Some (B1 (map2 (zcmp k) x y)) else None.
Proof. reflexivity. Qed.
Lemma compare_L1_Z : forall k x z, compare k (OT (L1 x)) (OZ z) = Some (B1 (map (fun e => zcmp k e z) x)).
Proof. reflexivity. Qed.
Lemma compare_Z_L1 : forall k z y, compare k (OZ z) (OT (L1 y)) = Some (B1 (map (zcmp k z) y)).
Proof. reflexivity. Qed.
Lemma compare_L21_L1 : forall k rows y,
  compare k (OT (L2 1 rows)) (OT (L1 y)) = Some (B2 (length y) (map (fun r => map (zcmp k (hd 0 r)) y) rows)).
Proof. reflexivity. Qed.
Lemma any_B1 : forall x, any (B1 x) = Some (existsb (fun b => b) x). Proof. reflexivity. Qed.
Lemma any_B2 : forall w rows, any (B2 w rows) = Some (existsb (existsb (fun b => b)) rows). Proof. reflexivity. Qed.
Lemma all_dim1_B2 : forall w rows, all_dim1 (B2 w rows) = Some (B1 (map (forallb (fun b => b)) rows)).
Proof. reflexivity. Qed.
Lemma sub_L1 : forall x y, sub (L1 x) (L1 y) = if Nat.eqb (length x) (length y) then Some (L1 (map2 Z.sub x y)) else None.
Proof. reflexivity. Qed.
Lemma and_B1 : forall x y,
  logical_and (B1 x) (B1 y) = if Nat.eqb (length x) (length y) then Some (B1 (map2 andb x y)) else None.
Proof. reflexivity. Qed.
Lemma invert_B1 : forall x, invert (B1 x) = Some (B1 (map negb x)). Proof. reflexivity. Qed.
Lemma ones_like_B1 : forall x, ones_like (B1 x) = Some (B1 (map (fun _ => true) x)). Proof. reflexivity. Qed.
Lemma long_B1 : forall x, long (B1 x) = Some (L1 (map (fun b : bool => if b then 1 else 0) x)). Proof. reflexivity. Qed.
Lemma square_L1 : forall x, square (L1 x) = Some (L1 (map (fun z => z * z) x)). Proof. reflexivity. Qed.
Lemma unsqueeze1_L1 : forall x, unsqueeze1 (L1 x) = Some (L2 1 (map (fun z => [z]) x)). Proof. reflexivity. Qed.
Lemma sum_L1 : forall x, sum (L1 x) = Some (fold_right Z.add 0 x). Proof. reflexivity. Qed.
Lemma nonzero_B1 : forall x, nonzero (B1 x) = Some (L2 1 (map (fun i => [i]) (true_positions 0 x))). Proof. reflexivity. Qed.
Lemma flatten_L2 : forall w rows, flatten (L2 w rows) = Some (L1 (concat rows)). Proof. reflexivity. Qed.
Lemma tolist_L1 : forall x, tolist (L1 x) = Some x. Proof. reflexivity. Qed.
Lemma masked_L1 : forall v k, masked (L1 v) (B1 k) = if Nat.eqb (length v) (length k) then Some (L1 (select v k)) else None.
Proof. reflexivity. Qed.
Lemma repeat_interleave_L1 : forall x c,
  repeat_interleave (L1 x) (L1 c)
  = if Nat.eqb (length x) (length c) then
      Some (if existsb (fun n => n <? 0) c then None
            else Some (L1 (concat (map2 (fun v n => repeat v (Z.to_nat n)) x c))))
    else None.
Proof. reflexivity. Qed.

(* ---- Python slices of lists ---- *)
Lemma slice_all : forall A (l : list A), slice_list None None l = l.
Proof.
  intros. unfold slice_list, slice_lo, slice_hi. cbn [skipn]. rewrite Nat.sub_0_r. apply firstn_all.
Qed.

Lemma slice_from1 : forall A (x : A) l, slice_list (Some 1) None (x :: l) = l.
Proof.
  intros. unfold slice_list, slice_lo, slice_hi, clip. cbn [length]. change (1 <? 0) with false. cbv iota.
  replace (Z.to_nat (Z.min 1 (Z.of_nat (S (length l))))) with 1%nat by lia.
  cbn [skipn]. replace (S (length l) - 1)%nat with (length l) by lia. apply firstn_all.
Qed.

Lemma slice_from1_nil : forall A, slice_list (Some 1) None (@nil A) = [].
Proof. reflexivity. Qed.

Lemma slice_from1_tl : forall A (l : list A), slice_list (Some 1) None l = tl l.
Proof. intros A [|x l]; [reflexivity|apply slice_from1]. Qed.

Lemma slice_to1 : forall A (x : A) l, slice_list None (Some 1) (x :: l) = [x].
Proof.
  intros. unfold slice_list, slice_lo, slice_hi, clip. cbn [length skipn]. change (1 <? 0) with false. cbv iota.
  replace (Z.to_nat (Z.min 1 (Z.of_nat (S (length l)))) - 0)%nat with 1%nat by lia.
  reflexivity.
Qed.

Lemma slice_butlast : forall A (l : list A), slice_list None (Some (-1)) l = removelast l.
Proof.
  intros. unfold slice_list, slice_lo, slice_hi, clip. cbn [skipn].
  change (-1 <? 0) with true. cbv iota.
  replace (Z.to_nat (Z.max (-1 + Z.of_nat (length l)) 0) - 0)%nat with (pred (length l)) by lia.
  symmetry. apply removelast_firstn_len.
Qed.

Lemma slice_len_from1_3 : slice_len (Some 1) None 3 = 2%nat.
Proof. reflexivity. Qed.
Lemma slice_len_to1_3 : slice_len None (Some 1) 3 = 1%nat.
Proof. reflexivity. Qed.

Lemma norm_index_lit : forall n k, (k < n)%nat -> norm_index n (Z.of_nat k) = Some k.
Proof.
  intros n k H. unfold norm_index. replace (Z.of_nat k <? 0) with false by lia.
  replace ((0 <=? Z.of_nat k) && (Z.of_nat k <? Z.of_nat n))%bool with true by lia. now rewrite Nat2Z.id.
Qed.

Lemma norm_index_last : forall n, (0 < n)%nat -> norm_index n (-1) = Some (pred n).
Proof.
  intros n H. unfold norm_index. change (-1 <? 0) with true. cbv iota.
  replace ((0 <=? -1 + Z.of_nat n) && (-1 + Z.of_nat n <? Z.of_nat n))%bool with true by lia. f_equal. lia.
Qed.

(* ---- lengths ---- *)
Lemma map2_length : forall A B C (f : A -> B -> C) a b, length a = length b -> length (map2 f a b) = length a.
Proof. induction a as [|x a IH]; intros [|y b] H; cbn in *; try lia. now rewrite IH by lia. Qed.

Lemma cumsum_from_length : forall l s, length (cumsum_from s l) = length l.
Proof. induction l as [|x l IH]; intros s; cbn; [reflexivity|now rewrite IH]. Qed.

Lemma removelast_length : forall A (l : list A), length (removelast l) = pred (length l).
Proof. intros. rewrite removelast_firstn_len, firstn_length. lia. Qed.

Lemma select_all_true : forall A (l : list A), select l (map (fun _ => true) l) = l.
Proof. induction l as [|x l IH]; cbn; [reflexivity|now rewrite IH]. Qed.
