(* C06 — lemmas about the ARPA reader model: a well-formed file yields exactly its listed
   entries; blank lines never matter. *)
From Coq Require Import List ZArith Bool Arith Lia ZifyBool ZifyNat.
From PV Require Import C06.Model C06.Spec C06.Proofs.
Import ListNotations.
Local Open Scope Z_scope.

(* ---------- the header part ------------------------------------------------------------------------ *)

Lemma skip_to_data_pre pre r : Forall (fun l => l <> LData) pre ->
  skip_to_data (pre ++ LData :: r) = Some r.
Proof.
  induction 1 as [|l pre Hl Hpre IH]; [reflexivity|]. cbn [app skip_to_data].
  destruct l; try assumption. congruence.
Qed.

Lemma upd_app_last {A} (cs : list A) x c : upd (cs ++ [x]) (length cs) c = cs ++ [c].
Proof. induction cs as [|y cs IH]; [reflexivity|]. cbn [app length upd]. rewrite IH. reflexivity. Qed.

Definition is_stop (l : aline) : bool :=
  match l with LBlank | LEntry _ _ | LCount _ _ => false | _ => true end.

Lemma read_counts_seq (c : nat -> nat) l r : is_stop l = true ->
  forall m j cs, length cs = j ->
  read_counts (map (fun n => LCount n (c n)) (seq (S j) m) ++ l :: r) cs =
  Some (cs ++ map c (seq (S j) m), l, r).
Proof.
  intros Hstop. induction m as [|m IH]; intros j cs Hj.
  - cbn [seq map app]. rewrite app_nil_r. destruct l; try discriminate; reflexivity.
  - cbn [seq map app read_counts]. unfold set_count.
    replace (S j - length cs)%nat with 1%nat by lia. cbn [repeat].
    rewrite <- Hj, upd_app_last. rewrite (IH (S (length cs)) (cs ++ [c (S (length cs))])).
    + rewrite <- app_assoc. reflexivity.
    + rewrite app_length. cbn. lia.
Qed.

(* ---------- one section ------------------------------------------------------------------------------ *)

Lemma dset_fresh {A} (d : list (list Z * A)) k x : ~ In k (map fst d) -> dset d k x = d ++ [(k, x)].
Proof.
  induction d as [|e d IH]; intros Hnin; [reflexivity|]. cbn [dset app].
  destruct (list_eqb (fst e) k) eqn:E.
  - apply list_eqb_eq in E. exfalso. apply Hnin. left. assumption.
  - rewrite IH; [reflexivity|]. intros H. apply Hnin. right. assumption.
Qed.

Lemma opt_all_ids (wf : Z -> option Z) k :
  opt_all (map field_id (map (fun x => Field (Some x) (wf x)) k)) = Some k.
Proof. induction k as [|x k IH]; [reflexivity|]. cbn. rewrite IH. reflexivity. Qed.

Lemma entry_step wf N n e ls d : (1 <= n <= N)%nat ->
  length (ae_key e) = n -> (n = N -> ae_bo e = None) ->
  read_entries (entry_line wf e :: ls) n N d =
  read_entries ls n N (dset d (ae_key e) (snd (entry_value N n e))).
Proof.
  intros Hn Hk Hbo. unfold entry_line, entry_value. cbn [read_entries snd].
  set (kf := map (fun x => Field (Some x) (wf x)) (ae_key e)).
  assert (Hkf : length kf = n) by (subst kf; rewrite map_length; assumption).
  destruct (ae_bo e) as [[oi bo]|] eqn:Ebo.
  - assert (HnN : (n < N)%nat).
    { destruct (Nat.eq_dec n N) as [E|E]; [specialize (Hbo E); congruence|lia]. }
    rewrite app_length, Hkf. cbn [length]. rewrite Nat.eqb_refl.
    replace (Nat.ltb n N) with true by (symmetry; apply Nat.ltb_lt; assumption). cbn [andb].
    rewrite last_last. cbn [field_fl]. rewrite removelast_last, Hkf, Nat.eqb_refl. cbn [negb].
    subst kf. rewrite opt_all_ids.
    replace (Nat.eqb n 0) with false by (symmetry; apply Nat.eqb_neq; lia).
    replace (Nat.eqb n N) with false by (symmetry; apply Nat.eqb_neq; lia). reflexivity.
  - rewrite app_nil_r, Hkf.
    replace (Nat.eqb n (n + 1)) with false by (symmetry; apply Nat.eqb_neq; lia). cbn [andb].
    rewrite Hkf, Nat.eqb_refl. cbn [negb]. subst kf. rewrite opt_all_ids.
    replace (Nat.eqb n 0) with false by (symmetry; apply Nat.eqb_neq; lia).
    destruct (Nat.eqb n N); reflexivity.
Qed.

Lemma read_entries_section wf N n l r : (1 <= n <= N)%nat -> is_stop l = true ->
  forall es d,
    Forall (fun e => length (ae_key e) = n /\ (n = N -> ae_bo e = None)) es ->
    NoDup (map fst d ++ map ae_key es) ->
    read_entries (map (entry_line wf) es ++ l :: r) n N d =
    Some (d ++ map (entry_value N n) es, l, r).
Proof.
  intros Hn Hstop. induction es as [|e es IH]; intros d Hes Hnd.
  - cbn [map app]. rewrite app_nil_r. destruct l; try discriminate; reflexivity.
  - pose proof (Forall_inv Hes) as [Hk Hbo]. pose proof (Forall_inv_tail Hes) as Hes'.
    cbn [map app]. rewrite (entry_step wf N n e _ d Hn Hk Hbo).
    assert (Hfresh : ~ In (ae_key e) (map fst d)).
    { intros Hin. cbn [map] in Hnd. apply NoDup_remove_2 in Hnd. apply Hnd.
      apply in_or_app. left. assumption. }
    rewrite dset_fresh by assumption.
    rewrite IH; [|assumption|].
    + rewrite <- app_assoc. cbn [app]. unfold entry_value at 2. cbn [snd].
      replace (ae_key e, snd (entry_value N n e)) with (entry_value N n e) by reflexivity.
      reflexivity.
    + rewrite map_app. cbn [map fst]. rewrite <- app_assoc. cbn [app].
      unfold entry_value. cbn [fst]. exact Hnd.
Qed.

(* ---------- all sections -------------------------------------------------------------------------------- *)

Section File.
  Variables (wf : Z -> option Z) (secs : list (list aentry)) (post : list aline).
  Let N := length secs.
  Let dict_of (n : nat) : dict := map (entry_value N n) (nth_sec secs n).
  Let sec_lines (j m : nat) : list aline :=
    flat_map (fun n => LHeader n :: map (entry_line wf) (nth_sec secs n)) (seq j m).

  Hypothesis Hsecs : forall n, (1 <= n <= N)%nat -> section_ok N n (nth_sec secs n).

  Lemma sec_lines_head j m : exists l r, sec_lines j m ++ LEnd :: post = l :: r /\ is_stop l = true.
  Proof.
    destruct m as [|m]; cbn; eauto.
  Qed.

  Lemma upd_mid {A} (a : list A) x c rest : upd (a ++ x :: rest) (length a) c = a ++ c :: rest.
  Proof. induction a as [|y a IH]; [reflexivity|]. cbn [app length upd]. rewrite IH. reflexivity. Qed.

  Lemma sections_run : forall m j fuel l r,
    (1 <= j)%nat -> (j + m = N + 1)%nat -> (m < fuel)%nat ->
    l :: r = sec_lines j m ++ LEnd :: post ->
    sections fuel l r N (map dict_of (seq 1 (j - 1)) ++ repeat [] (N - (j - 1))) =
    Some (map dict_of (seq 1 N)).
  Proof.
    induction m as [|m IH]; intros j fuel l r Hj Hjm Hf Hlr.
    - cbn in Hlr. injection Hlr as -> ->. destruct fuel; [lia|]. cbn [sections].
      replace (j - 1)%nat with N by lia. rewrite Nat.sub_diag. cbn [repeat]. rewrite app_nil_r. reflexivity.
    - unfold sec_lines in Hlr. cbn [seq flat_map] in Hlr. fold (sec_lines (S j) m) in Hlr.
      cbn [app] in Hlr. injection Hlr as -> ->.
      destruct fuel as [|fuel]; [lia|]. cbn [sections].
      replace (Nat.ltb N j) with false by (symmetry; apply Nat.ltb_ge; lia).
      destruct (sec_lines_head (S j) m) as (l' & r' & Hlr' & Hstop).
      rewrite <- app_assoc, Hlr'.
      assert (Hnth : nth (j - 1) (map dict_of (seq 1 (j - 1)) ++ repeat [] (N - (j - 1))) [] = @nil (list Z * (val * val))).
      { rewrite app_nth2 by (rewrite map_length, seq_length; lia).
        rewrite map_length, seq_length, Nat.sub_diag. destruct (N - (j - 1))%nat; reflexivity. }
      rewrite Hnth.
      destruct (Hsecs j ltac:(lia)) as [Hfa Hnd].
      rewrite (read_entries_section wf N j l' r' ltac:(lia) Hstop (nth_sec secs j) [] Hfa Hnd).
      cbn [app]. replace (Nat.eqb j 0) with false by (symmetry; apply Nat.eqb_neq; lia).
      fold (dict_of j).
      replace (N - (j - 1))%nat with (S (N - j)) by lia. cbn [repeat].
      replace (j - 1)%nat with (length (map dict_of (seq 1 (j - 1)))) at 2
        by (rewrite map_length, seq_length; reflexivity).
      rewrite upd_mid.
      replace (map dict_of (seq 1 (j - 1)) ++ dict_of j :: repeat [] (N - j))
        with (map dict_of (seq 1 (S j - 1)) ++ repeat [] (N - (S j - 1))).
      + apply IH; try lia. symmetry. exact Hlr'.
      + replace (S j - 1)%nat with (j - 1 + 1)%nat by lia. rewrite seq_app, map_app. cbn [seq map].
        rewrite <- app_assoc. cbn [app]. replace (1 + (j - 1))%nat with j by lia.
        replace (N - (j - 1 + 1))%nat with (N - j)%nat by lia. reflexivity.
  Qed.

  Lemma sec_lines_length j m : (m <= length (sec_lines j m))%nat.
  Proof.
    revert j. induction m as [|m IH]; intros j; [cbn; lia|].
    unfold sec_lines. cbn [seq flat_map]. fold (sec_lines (S j) m).
    cbn [app length]. rewrite app_length. specialize (IH (S j)). lia.
  Qed.

  Lemma parse_canonical pre : Forall (fun l => l <> LData) pre ->
    parse_arpa (arpa_lines wf pre post secs) = Some (arpa_dicts secs).
  Proof.
    intros Hpre. unfold parse_arpa, arpa_lines. fold N. rewrite skip_to_data_pre by assumption.
    fold (sec_lines 1 N).
    destruct (sec_lines_head 1 N) as (l & r & Hlr & Hstop).
    rewrite Hlr.
    rewrite (read_counts_seq (fun n => length (nth_sec secs n)) l r Hstop N 0 [] eq_refl).
    cbn [app]. rewrite map_length, seq_length.
    pose proof (sections_run N 1 (S (length r)) l r (le_n _) ltac:(lia)) as Hrun.
    cbn [Nat.sub seq map app] in Hrun. rewrite Nat.sub_0_r in Hrun.
    rewrite Hrun.
    - unfold arpa_dicts. fold N. fold dict_of.
      replace (forallb _ _) with true; [reflexivity|]. symmetry.
      apply forallb_forall. intros [c d] Hin. cbn [fst snd]. apply Nat.eqb_eq.
      generalize (seq 1 N) Hin. clear. intros s. induction s as [|n s IH]; cbn; [tauto|].
      intros [E|E]; [injection E as <- <-; unfold dict_of; apply map_length|apply IH; assumption].
    - pose proof (sec_lines_length 1 N) as Hlen.
      apply (f_equal (@length aline)) in Hlr. rewrite app_length in Hlr. cbn [length] in Hlr. lia.
    - symmetry. exact Hlr.
  Qed.
End File.

(* ---------- blank lines never matter --------------------------------------------------------------------- *)

Definition nb (ls : list aline) : list aline := filter nonblank ls.

Lemma skip_to_data_nb ls : skip_to_data (nb ls) = option_map nb (skip_to_data ls).
Proof. induction ls as [|l ls IH]; [reflexivity|]. destruct l; cbn; try assumption; reflexivity. Qed.

Lemma read_counts_nb ls : forall cs,
  read_counts (nb ls) cs =
  option_map (fun x => (fst (fst x), snd (fst x), nb (snd x))) (read_counts ls cs).
Proof.
  induction ls as [|l ls IH]; intros cs; [reflexivity|].
  destruct l; cbn [nb filter nonblank read_counts]; fold (nb ls); try reflexivity.
  - apply IH.
  - destruct (set_count cs n c); [apply IH|reflexivity].
Qed.

Lemma read_entries_nb n N ls : forall d,
  read_entries (nb ls) n N d =
  option_map (fun x => (fst (fst x), snd (fst x), nb (snd x))) (read_entries ls n N d).
Proof.
  induction ls as [|l ls IH]; intros d; [reflexivity|].
  destruct l; cbn [nb filter nonblank]; fold (nb ls); try reflexivity.
  - cbn [read_entries]. apply IH.
  - cbn [read_entries].
    match goal with |- context [match ?X with pair _ _ => _ end] => destruct X as [fs' logb] end.
    destruct (negb (Nat.eqb (length fs') n)); [reflexivity|].
    destruct (opt_all (map field_id fs')); [|reflexivity].
    destruct (Nat.eqb n 0); [reflexivity|]. apply IH.
Qed.

Lemma read_entries_split n N ls : forall d d' l r,
  read_entries ls n N d = Some (d', l, r) ->
  exists skipped, ls = skipped ++ l :: r /\ nonblank l = true.
Proof.
  induction ls as [|x ls IH]; intros d d' l r H; [discriminate|].
  destruct x; cbn [read_entries] in H;
    try (injection H as _ <- <-; exists []; split; reflexivity).
  - apply IH in H as (sk & -> & Hnb). exists (LBlank :: sk). split; [reflexivity|assumption].
  - match type of H with context [match ?X with pair _ _ => _ end] => destruct X as [fs' logb] end.
    destruct (negb (Nat.eqb (length fs') n)); [discriminate|].
    destruct (opt_all (map field_id fs')); [|discriminate].
    destruct (Nat.eqb n 0); [discriminate|].
    apply IH in H as (sk & -> & Hnb). exists (LEntry logp fs :: sk). split; [reflexivity|assumption].
Qed.

Lemma sections_nb N : forall f l r ds f',
  (length r < f)%nat -> (length (nb r) < f')%nat ->
  sections f' l (nb r) N ds = sections f l r N ds.
Proof.
  induction f as [|f IH]; intros l r ds f' Hf Hf'; [lia|].
  destruct f' as [|f']; [lia|]. cbn [sections].
  destruct l; try reflexivity.
  destruct (Nat.ltb N n); [reflexivity|].
  rewrite read_entries_nb.
  destruct (read_entries r n N (nth (n - 1) ds [])) as [[[d l'] r']|] eqn:E; [|reflexivity].
  cbn [option_map fst snd]. apply read_entries_split in E as (sk & -> & Hnb).
  unfold nb in Hf'. rewrite filter_app in Hf'. cbn [filter] in Hf'. rewrite Hnb in Hf'.
  rewrite app_length in Hf, Hf'. cbn [length] in Hf, Hf'. fold (nb r') in Hf'.
  apply IH; lia.
Qed.

Lemma parse_arpa_nb ls : parse_arpa (nb ls) = parse_arpa ls.
Proof.
  unfold parse_arpa. rewrite skip_to_data_nb.
  destruct (skip_to_data ls) as [r|]; [|reflexivity]. cbn [option_map].
  rewrite read_counts_nb.
  destruct (read_counts r []) as [[[counts l] r']|]; [|reflexivity]. cbn [option_map fst snd].
  rewrite (sections_nb (length counts) (S (length r')) l r' _ (S (length (nb r')))) by lia.
  reflexivity.
Qed.

Lemma parse_wellformed wf pre post secs ls :
  filter nonblank ls = arpa_lines wf pre post secs ->
  Forall (fun l => l <> LData) pre ->
  (forall n, (1 <= n <= length secs)%nat -> section_ok (length secs) n (nth_sec secs n)) ->
  parse_arpa ls = Some (arpa_dicts secs).
Proof.
  intros Hls Hpre Hsecs. rewrite <- parse_arpa_nb. unfold nb. rewrite Hls.
  apply parse_canonical; assumption.
Qed.
