(* C07 - sequence_log_probs on packed input: the pack / gather / unpack / un-sort pipeline gives,
   for every sequence, the declarative sum over its own length. *)
From Coq Require Import List ZArith Bool Arith Lia Sorted.
From PV Require Import C07.Model C07.Spec C07.Lib C07.ProofsSlp C07.ProofsWalk.
Import ListNotations.


Lemma cnt_cons t l ls : cnt t (l :: ls) = b2n (t <? l) + cnt t ls.
Proof. reflexivity. Qed.

Lemma cnt_le t ls : cnt t ls <= length ls.
Proof. induction ls as [|l ls IH]; [cbn; lia|]. rewrite cnt_cons. cbn [length]. destruct (t <? l); cbn; lia. Qed.

Lemma cnt_small t ls : (forall l, In l ls -> l <= t) -> cnt t ls = 0.
Proof.
  induction ls as [|l ls IH]; intros H; [reflexivity|]. rewrite cnt_cons, IH by (intros; apply H; now right).
  replace (t <? l) with false; [reflexivity|]. symmetry. apply Nat.ltb_ge. apply H. now left.
Qed.

Lemma cnt_prefix t : forall ls j, desc ls -> j < length ls -> (j <? cnt t ls) = (t <? nth j ls 0).
Proof.
  induction ls as [|l ls IH]; intros j Hd Hj; [cbn in Hj; lia|].
  apply StronglySorted_inv in Hd as [Hd Hl]. rewrite Forall_forall in Hl. rewrite cnt_cons.
  destruct j as [|j]; cbn [nth].
  - destruct (Nat.ltb_spec t l) as [Htl|Htl]; cbn [b2n]; [reflexivity|].
    rewrite cnt_small by (intros x Hx; specialize (Hl x Hx); lia). reflexivity.
  - destruct (Nat.ltb_spec t l) as [Htl|Htl]; cbn [b2n].
    + rewrite <- (IH j Hd) by (cbn in Hj; lia). reflexivity.
    + rewrite cnt_small by (intros x Hx; specialize (Hl x Hx); lia). cbn [Nat.add].
      assert (nth j ls 0 <= l) by (apply Hl, nth_In; cbn in Hj; lia).
      symmetry. apply Nat.ltb_ge. lia.
Qed.

Lemma cnt_zero ls : (forall l, In l ls -> 1 <= l) -> cnt 0 ls = length ls.
Proof.
  induction ls as [|l ls IH]; intros H; [reflexivity|]. rewrite cnt_cons, IH by (intros; apply H; now right).
  replace (0 <? l) with true; [reflexivity|]. symmetry. apply Nat.ltb_lt. apply H. now left.
Qed.

Lemma count_lt l : forall T s, sumn (map (fun t => b2n (t <? l)) (seq s T)) = Nat.min (l - s) T.
Proof.
  induction T as [|T IH]; intros s; [cbn; lia|].
  cbn [seq map sumn fold_right]. change (fold_right Nat.add 0 ?x) with (sumn x). rewrite IH.
  destruct (Nat.ltb_spec s l); cbn [b2n]; lia.
Qed.

Lemma lens_of_bs_pack ls Tm : desc ls -> (forall l, In l ls -> l <= Tm) ->
  lens_of_bs (length ls) (map (fun t => cnt t ls) (seq 0 Tm)) = ls.
Proof.
  intros Hd Hm. unfold lens_of_bs.
  transitivity (map (fun n => nth n ls 0) (seq 0 (length ls))); [|symmetry; apply list_eq_map_nth].
  apply map_ext_in. intros n Hn. apply in_seq in Hn. rewrite map_map.
  rewrite (map_ext _ (fun t => b2n (t <? nth n ls 0))) by (intros t; rewrite cnt_prefix by (try exact Hd; lia); reflexivity).
  rewrite count_lt. assert (nth n ls 0 <= Tm) by (apply Hm, nth_In; lia). lia.
Qed.

Lemma split_by_concat {X} : forall (chunks : list (list X)),
  split_by (map (@length X) chunks) (concat chunks) = chunks.
Proof.
  induction chunks as [|c chunks IH]; [reflexivity|].
  cbn [map concat split_by]. rewrite firstn_app_exact. f_equal.
  rewrite skipn_app, skipn_all, Nat.sub_diag. cbn. exact IH.
Qed.

Section Packed.
  Context {A : Type} (op : A -> A -> A) (unit : A).
  Hypothesis unit_l : forall x, op unit x = x.
  Variable V : Z.

  Definition term (row : list A) (k : Z) : A := if oov V k then unit else nth (Z.to_nat k) row unit.

  Definition G (d : list (list A)) (t : list Z) : list A := gather_masked unit (map (oov V) t) d t.

  Lemma G_cons row d k t : G (row :: d) (k :: t) = term row k :: G d t.
  Proof. unfold G, gather_masked, term. cbn [map map2]. destruct (oov V k); reflexivity. Qed.

  Lemma G_app : forall d1 t1 d2 t2, length d1 = length t1 ->
    G (d1 ++ d2) (t1 ++ t2) = G d1 t1 ++ G d2 t2.
  Proof.
    induction d1 as [|row d1 IH]; intros [|k t1] d2 t2 H; try discriminate; [reflexivity|].
    cbn [app]. rewrite !G_cons, IH by (cbn in H; lia). reflexivity.
  Qed.

  Lemma G_length : forall d t, length d = length t -> length (G d t) = length t.
  Proof.
    induction d as [|row d IH]; intros [|k t] H; try discriminate; [reflexivity|].
    rewrite G_cons. cbn [length]. rewrite IH by (cbn in H; lia). reflexivity.
  Qed.

  Lemma G_nth : forall d t j, length d = length t -> j < length t ->
    nth j (G d t) unit = term (nth j d []) (nth j t 0%Z).
  Proof.
    induction d as [|row d IH]; intros [|k t] j H Hj; try discriminate; [cbn in Hj; lia|].
    rewrite G_cons. destruct j; [reflexivity|]. cbn [nth]. apply IH; cbn in *; lia.
  Qed.

  Lemma G_concat : forall dch tch, length dch = length tch ->
    (forall i, i < length tch -> length (nth i dch []) = length (nth i tch [])) ->
    G (concat dch) (concat tch) = concat (map2 G dch tch).
  Proof.
    induction dch as [|d dch IH]; intros [|t tch] Hl H; try discriminate; [reflexivity|].
    cbn [concat map2]. rewrite G_app by (apply (H 0); cbn; lia). f_equal.
    apply IH; [cbn in Hl; lia|]. intros i Hi. apply (H (S i)). cbn. lia.
  Qed.

  (* column j of the unpacked chunks is the declarative sum over the first [L] steps *)
  Lemma unpack_col (ls : list nat) (j : nat) : desc ls -> j < length ls ->
    forall (lp' : list (list (list A))) (hyp' : list (list Z)) s,
    length lp' <= length hyp' ->
    (forall r, In r lp' -> length r = length ls) -> (forall r, In r hyp' -> length r = length ls) ->
    sum_list op unit
      (map (fun ch => nth j ch unit)
           (map2 G (map2 (fun t row => firstn (cnt t ls) row) (seq s (length lp')) lp')
                   (map2 (fun t row => firstn (cnt t ls) row) (seq s (length lp')) hyp')))
    = spec_slp op unit V None (firstn (nth j ls 0 - s) (column [] j lp'))
                              (firstn (nth j ls 0 - s) (column 0%Z j hyp')).
  Proof.
    intros Hd Hj. induction lp' as [|lrow lp' IH]; intros hyp' s Hlen Hlp Hhyp.
    - cbn [length seq map2 map sum_list fold_right column]. rewrite firstn_nil.
      destruct (firstn _ _); reflexivity.
    - destruct hyp' as [|hrow hyp']; [cbn in Hlen; lia|].
      cbn [length seq map2 map sum_list fold_right column].
      change (fold_right op unit ?x) with (sum_list op unit x).
      rewrite (IH hyp' (S s)); [|cbn in Hlen; lia|intros; apply Hlp; now right|intros; apply Hhyp; now right].
      assert (Hl1 : length lrow = length ls) by (apply Hlp; now left).
      assert (Hl2 : length hrow = length ls) by (apply Hhyp; now left).
      pose proof (cnt_le s ls) as Hc.
      pose proof (cnt_prefix s ls j Hd Hj) as Hp.
      destruct (Nat.ltb_spec s (nth j ls 0)) as [HsL|HsL].
      + apply Nat.ltb_lt in Hp.
        rewrite G_nth by (rewrite !firstn_length; lia).
        rewrite !nth_firstn_lt by exact Hp.
        replace (nth j ls 0 - s) with (S (nth j ls 0 - S s)) by lia.
        cbn [firstn spec_slp]. unfold term. rewrite in_vocab_oov.
        destruct (oov V (nth j hrow 0%Z)); cbn [negb]; [apply unit_l|reflexivity].
      + apply Nat.ltb_ge in Hp.
        rewrite nth_overflow by (rewrite G_length; rewrite !firstn_length; lia).
        replace (nth j ls 0 - s) with 0 by lia. replace (nth j ls 0 - S s) with 0 by lia.
        cbn [firstn spec_slp]. apply unit_l.
  Qed.

  Lemma chunk_lengths (ls : list nat) :
    forall (lp' : list (list (list A))) (hyp' : list (list Z)) s,
    length lp' <= length hyp' ->
    (forall r, In r lp' -> length r = length ls) -> (forall r, In r hyp' -> length r = length ls) ->
    map (@length A)
        (map2 G (map2 (fun t row => firstn (cnt t ls) row) (seq s (length lp')) lp')
                (map2 (fun t row => firstn (cnt t ls) row) (seq s (length lp')) hyp'))
    = map (fun t => cnt t ls) (seq s (length lp')).
  Proof.
    induction lp' as [|lrow lp' IH]; intros hyp' s Hlen Hlp Hhyp; [reflexivity|].
    destruct hyp' as [|hrow hyp']; [cbn in Hlen; lia|].
    cbn [length seq map2 map]. f_equal.
    - pose proof (cnt_le s ls). rewrite G_length; rewrite !firstn_length;
        rewrite ?(Hlp lrow), ?(Hhyp hrow) by (now left); lia.
    - apply IH; [cbn in Hlen; lia|intros; apply Hlp; now right|intros; apply Hhyp; now right].
  Qed.

  Lemma chunk_pair_lengths (ls : list nat) :
    forall (lp' : list (list (list A))) (hyp' : list (list Z)) s i,
    length lp' <= length hyp' ->
    (forall r, In r lp' -> length r = length ls) -> (forall r, In r hyp' -> length r = length ls) ->
    length (nth i (map2 (fun t row => firstn (cnt t ls) row) (seq s (length lp')) lp') []) =
    length (nth i (map2 (fun t row => firstn (cnt t ls) row) (seq s (length lp')) hyp') []).
  Proof.
    induction lp' as [|lrow lp' IH]; intros hyp' s i Hlen Hlp Hhyp; [destruct i; reflexivity|].
    destruct hyp' as [|hrow hyp']; [cbn in Hlen; lia|].
    cbn [length seq map2]. destruct i as [|i]; cbn [nth].
    - rewrite !firstn_length. rewrite (Hlp lrow), (Hhyp hrow) by (now left). reflexivity.
    - apply IH; [cbn in Hlen; lia|intros; apply Hlp; now right|intros; apply Hhyp; now right].
  Qed.

  (* lengths already sorted (enforce_sorted=True): no index tensors *)
  Theorem slp_ps_sorted (ls : list nat) (lp_s : list (list (list A))) (hyp_s : list (list Z)) :
    desc ls -> (forall l, In l ls -> 1 <= l) ->
    length lp_s = list_max ls -> list_max ls <= length hyp_s ->
    (forall r, In r lp_s -> length r = length ls) -> (forall r, In r hyp_s -> length r = length ls) ->
    slp_ps op unit V (pack_data lp_s ls) (map (fun t => cnt t ls) (seq 0 (list_max ls)))
           None None (length ls) hyp_s
    = map (fun j => spec_slp op unit V None (firstn (nth j ls 0) (column [] j lp_s))
                                            (firstn (nth j ls 0) (column 0%Z j hyp_s)))
          (seq 0 (length ls)).
  Proof.
    intros Hd H1 HT HTh Hlp Hhyp. unfold slp_ps.
    rewrite lens_of_bs_pack by (try exact Hd; intros l Hl; apply list_max_ge; exact Hl).
    unfold pack_data. fold (cnt 0 ls).
    change (fun (t : nat) (row : list (list A)) => firstn (sumn (map (fun l => b2n (t <? l)) ls)) row)
      with (fun (t : nat) (row : list (list A)) => firstn (cnt t ls) row).
    change (fun (t : nat) (row : list Z) => firstn (sumn (map (fun l => b2n (t <? l)) ls)) row)
      with (fun (t : nat) (row : list Z) => firstn (cnt t ls) row).
    rewrite <- HT in *.
    change (gather_masked unit (map (oov V) ?t) ?d ?t) with (G d t).
    rewrite G_concat.
    2:{ rewrite !map2_length, seq_length. lia. }
    2:{ intros i _. apply chunk_pair_lengths; [lia|exact Hlp|exact Hhyp]. }
    unfold unpack.
    rewrite <- (chunk_lengths ls lp_s hyp_s 0) by (try lia; assumption).
    rewrite split_by_concat.
    rewrite (chunk_lengths ls lp_s hyp_s 0) by (try lia; assumption).
    assert (Hhd : hd 0 (map (fun t => cnt t ls) (seq 0 (length lp_s))) = length ls).
    { destruct lp_s as [|r lp']; cbn [length seq map hd].
      - destruct ls as [|l ls']; [reflexivity|].
        assert (l <= list_max (l :: ls')) by (apply list_max_ge; now left).
        specialize (H1 l (or_introl eq_refl)). cbn [length] in HT. lia.
      - apply cnt_zero. exact H1. }
    rewrite Hhd, map_map. apply map_ext_in. intros j Hj. apply in_seq in Hj.
    rewrite (unpack_col ls j Hd ltac:(lia) lp_s hyp_s 0) by (try lia; assumption).
    rewrite Nat.sub_0_r. reflexivity.
  Qed.

  Lemma column_index_select {X} (d : X) (idx : list nat) (m : list (list X)) j :
    j < length idx -> column d j (index_select_cols d idx m) = column d (nth j idx 0) m.
  Proof.
    intros Hj. unfold column, index_select_cols. rewrite map_map. apply map_ext. intros row.
    rewrite (nth_map' (fun i => nth i row d) idx j 0 d) by exact Hj. reflexivity.
  Qed.

  (* lengths in any order (enforce_sorted=False): sorted_indices / unsorted_indices *)
  Theorem slp_ps_correct (lens0 : list nat) (sidx uidx : list nat)
    (lp : list (list (list A))) (hyp : list (list Z)) :
    let N := length lens0 in
    let ls := map (fun j => nth j lens0 0) sidx in
    length sidx = N -> length uidx = N ->
    (forall n, n < N -> nth n uidx 0 < N /\ nth (nth n uidx 0) sidx 0 = n) ->
    desc ls -> (forall l, In l lens0 -> 1 <= l) -> (forall j, In j sidx -> j < N) ->
    length lp = list_max ls -> list_max ls <= length hyp ->
    slp_ps op unit V (pack_data (index_select_cols [] sidx lp) ls)
           (map (fun t => cnt t ls) (seq 0 (list_max ls))) (Some sidx) (Some uidx) N hyp
    = map (fun n => spec_slp op unit V None (firstn (nth n lens0 0) (column [] n lp))
                                            (firstn (nth n lens0 0) (column 0%Z n hyp)))
          (seq 0 N).
  Proof.
    intros N ls Hs Hu Hinv Hd H1 Hsr HT HTh.
    assert (Hls : length ls = N) by (unfold ls; rewrite map_length; exact Hs).
    pose proof (slp_ps_sorted ls (index_select_cols [] sidx lp) (index_select_cols 0%Z sidx hyp) Hd) as Hcore.
    unfold slp_ps in *. rewrite Hls in Hcore.
    rewrite Hcore; clear Hcore.
    - rewrite (list_eq_map_nth 0 uidx) at 1. rewrite Hu, map_map. apply map_ext_in.
      intros n Hn. apply in_seq in Hn. destruct (Hinv n ltac:(lia)) as [Hun Hsn].
      rewrite nth_map_seq by exact Hun.
      rewrite !column_index_select by lia. unfold ls.
      rewrite (nth_map' (fun j => nth j lens0 0) sidx _ 0 0) by lia.
      rewrite Hsn. reflexivity.
    - intros l Hl. unfold ls in Hl. apply in_map_iff in Hl as (j & <- & Hj).
      apply H1. apply nth_In. apply Hsr. exact Hj.
    - unfold index_select_cols. rewrite map_length. exact HT.
    - unfold index_select_cols. rewrite map_length. exact HTh.
    - intros r Hr. unfold index_select_cols in Hr. apply in_map_iff in Hr as (row & <- & _).
      rewrite map_length. lia.
    - intros r Hr. unfold index_select_cols in Hr. apply in_map_iff in Hr as (row & <- & _).
      rewrite map_length. lia.
  Qed.

  (* ---------- "identically for padded and packed input" --------------------------------------------- *)

  (* padded convention 1: everything at or beyond the length is out-of-vocabulary, no eos handling *)
  Lemma spec_slp_pad_oov : forall (toks : list Z) (rows : list (list A)) L,
    length rows = length toks ->
    (forall t, L <= t -> t < length toks -> oov V (nth t toks 0%Z) = true) ->
    spec_slp op unit V None rows toks = spec_slp op unit V None (firstn L rows) (firstn L toks).
  Proof.
    induction toks as [|k toks IH]; intros rows L Hl H.
    - destruct rows; [|discriminate]. rewrite !firstn_nil. reflexivity.
    - destruct rows as [|row rows]; [discriminate|]. destruct L as [|L].
      + cbn [firstn spec_slp]. assert (H0 : oov V k = true) by (apply (H 0); cbn; lia).
        rewrite in_vocab_oov, H0. cbn [negb].
        rewrite (IH rows 0) by (try (cbn in Hl; lia); intros t _ Ht; apply (H (S t)); cbn; lia).
        reflexivity.
      + cbn [firstn spec_slp].
        rewrite (IH rows L) by (try (cbn in Hl; lia); intros t Ht1 Ht2; apply (H (S t)); cbn; lia).
        reflexivity.
  Qed.

  (* padded convention 2: the sequence ends with its first eos at position L-1 *)
  Lemma spec_slp_pad_eos e : forall (toks : list Z) (rows : list (list A)) L,
    length rows = length toks -> first_eos e toks = Some L ->
    spec_slp op unit V (Some e) rows toks = spec_slp op unit V None (firstn (L + 1) rows) (firstn (L + 1) toks).
  Proof.
    induction toks as [|k toks IH]; intros rows L Hl H; [discriminate|].
    destruct rows as [|row rows]; [discriminate|]. cbn in H.
    destruct (Z.eqb_spec k e) as [->|Hne].
    - injection H as <-. cbn [Nat.add firstn spec_slp]. rewrite Z.eqb_refl.
      destruct toks, rows; reflexivity.
    - destruct (first_eos e toks) as [i|] eqn:Hf; [|discriminate]. injection H as <-.
      cbn [Nat.add firstn spec_slp].
      destruct (Z.eqb_spec k e); [contradiction|].
      rewrite (IH rows i) by (try (cbn in Hl; lia); reflexivity). reflexivity.
  Qed.

  (* the packed result is the tensor-path result on the padded input *)
  Theorem slp_packed_eq_padded (eos : option Z) (lens0 : list nat) (sidx uidx : list nat)
    (lp : list (list (list A))) (hyp : list (list Z)) :
    let N := length lens0 in
    let ls := map (fun j => nth j lens0 0) sidx in
    length sidx = N -> length uidx = N ->
    (forall n, n < N -> nth n uidx 0 < N /\ nth (nth n uidx 0) sidx 0 = n) ->
    desc ls -> (forall l, In l lens0 -> 1 <= l) -> (forall j, In j sidx -> j < N) ->
    length lp = list_max ls -> length hyp = length lp ->
    (* how the padded token tensor marks the end of each sequence *)
    (forall n, n < N ->
       match eos with
       | None => forall t, nth n lens0 0 <= t -> t < length hyp -> oov V (nth t (column 0%Z n hyp) 0%Z) = true
       | Some e => first_eos e (column 0%Z n hyp) = Some (nth n lens0 0 - 1)
       end) ->
    slp_ps op unit V (pack_data (index_select_cols [] sidx lp) ls)
           (map (fun t => cnt t ls) (seq 0 (list_max ls))) (Some sidx) (Some uidx) N hyp
    = map (fun n => slp_col op unit V eos (column [] n lp) (column 0%Z n hyp)) (seq 0 N).
  Proof.
    intros N ls Hs Hu Hinv Hd H1 Hsr HT HTh Hpad.
    pose proof (slp_ps_correct lens0 sidx uidx lp hyp Hs Hu Hinv Hd H1 Hsr HT) as Hc.
    cbn zeta in Hc. fold ls in Hc. fold N in Hc. rewrite Hc by lia. clear Hc.
    apply map_ext_in. intros n Hn. apply in_seq in Hn.
    rewrite (slp_col_correct op unit unit_l) by (rewrite !column_length; lia).
    specialize (Hpad n ltac:(lia)). destruct eos as [e|].
    - assert (1 <= nth n lens0 0) by (apply H1, nth_In; lia).
      rewrite (spec_slp_pad_eos e _ _ (nth n lens0 0 - 1)) by (try exact Hpad; rewrite !column_length; lia).
      replace (nth n lens0 0 - 1 + 1) with (nth n lens0 0) by lia. reflexivity.
    - symmetry. apply spec_slp_pad_oov; [rewrite !column_length; lia|].
      intros t Ht1 Ht2. rewrite column_length in Ht2. apply Hpad; assumption.
  Qed.
End Packed.
