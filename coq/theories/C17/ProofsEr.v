(* C17 - lemmas: error rates.  Levenshtein distance is invariant under injective renaming; the
   defaultdict numbering is injective; the batched accumulation does not depend on the batch size. *)
From Coq Require Import List ZArith Bool Arith Lia.
From PV Require Import C11.Model C11.ProofsSort C01.Spec C17.Model C17.Spec C17.ProofsSel.
Import ListNotations.
Local Open Scope Z_scope.

(* ---------- tokens ------------------------------------------------------------------------------ *)

Lemma tk_eqb_iff a b : tk_eqb a b = true <-> a = b.
Proof.
  destruct a as [x|x], b as [y|y]; cbn [tk_eqb]; try (split; intros H; discriminate).
  - rewrite Z.eqb_eq. split; [intros ->; reflexivity|intros H; inversion H; reflexivity].
  - rewrite str_eqb_iff. split; [intros ->; reflexivity|intros H; inversion H; reflexivity].
Qed.

Lemma tk_eqb_refl a : tk_eqb a a = true.
Proof. apply tk_eqb_iff. reflexivity. Qed.

(* ---------- renaming invariance of lev ------------------------------------------------------------ *)

(* two numberings that identify exactly the same tokens of l *)
Definition same_classes {T} (e1 e2 : T -> Z) (l : list T) : Prop :=
  forall a b, In a l -> In b l -> (e1 a = e1 b <-> e2 a = e2 b).

Definition inj_on {T} (e : T -> Z) (l : list T) : Prop :=
  forall a b, In a l -> In b l -> e a = e b -> a = b.

Lemma inj_same_classes {T} (e1 e2 : T -> Z) l : inj_on e1 l -> inj_on e2 l -> same_classes e1 e2 l.
Proof.
  intros H1 H2 a b Ha Hb. split; intros E.
  - rewrite (H1 a b Ha Hb E). reflexivity.
  - rewrite (H2 a b Ha Hb E). reflexivity.
Qed.

Section Lev.
  Variables ci cd cs : Z.

  Lemma lev_nil_l h : lev ci cd cs [] h = Z.of_nat (length h) * ci.
  Proof. reflexivity. Qed.

  Lemma lev_nil_r a r : lev ci cd cs (a :: r) [] = Z.of_nat (length (a :: r)) * cd.
  Proof. reflexivity. Qed.

  Lemma lev_cons a r b h :
    lev ci cd cs (a :: r) (b :: h) =
    Z.min (Z.min (lev ci cd cs r (b :: h) + cd) (lev ci cd cs (a :: r) h + ci))
          (lev ci cd cs r h + (if a =? b then 0 else cs)).
  Proof. reflexivity. Qed.

  Lemma lev_rename {T} (e1 e2 : T -> Z) : forall r h, same_classes e1 e2 (r ++ h) ->
    lev ci cd cs (map e1 r) (map e1 h) = lev ci cd cs (map e2 r) (map e2 h).
  Proof.
    induction r as [|a r IHr]; intros h S.
    - cbn [map]. rewrite !lev_nil_l, !map_length. reflexivity.
    - induction h as [|b h IHh].
      + cbn [map]. rewrite !lev_nil_r. cbn [length]. rewrite !map_length. reflexivity.
      + cbn [map]. rewrite !lev_cons.
        assert (S1 : same_classes e1 e2 (r ++ b :: h)).
        { intros x y Hx Hy. apply S; right; assumption. }
        assert (S2 : same_classes e1 e2 ((a :: r) ++ h)).
        { intros x y Hx Hy. apply S.
          - cbn [app] in *. destruct Hx as [Hx|Hx]; [left; exact Hx|right].
            apply in_app_iff in Hx. apply in_app_iff. destruct Hx; [left|right; right]; assumption.
          - cbn [app] in *. destruct Hy as [Hy|Hy]; [left; exact Hy|right].
            apply in_app_iff in Hy. apply in_app_iff. destruct Hy; [left|right; right]; assumption. }
        assert (S3 : same_classes e1 e2 (r ++ h)).
        { intros x y Hx Hy. apply S1; apply in_app_iff; [apply in_app_iff in Hx; destruct Hx|apply in_app_iff in Hy; destruct Hy];
            try (left; assumption); right; right; assumption. }
        pose proof (IHr (b :: h) S1) as E1. cbn [map] in E1. rewrite E1.
        pose proof (IHh S2) as E2. cbn [map] in E2. rewrite E2.
        rewrite (IHr h S3).
        assert (Eab : (e1 a =? e1 b) = (e2 a =? e2 b)).
        { assert (Ha : In a ((a :: r) ++ b :: h)) by (left; reflexivity).
          assert (Hb : In b ((a :: r) ++ b :: h)) by (apply in_app_iff; right; left; reflexivity).
          pose proof (S a b Ha Hb) as Hab.
          destruct (e1 a =? e1 b) eqn:X1, (e2 a =? e2 b) eqn:X2; try reflexivity.
          - apply Z.eqb_eq in X1. apply Z.eqb_neq in X2. tauto.
          - apply Z.eqb_neq in X1. apply Z.eqb_eq in X2. tauto. }
        rewrite Eab. reflexivity.
  Qed.

  (* the usual statement: an injective renaming of the symbols does not change the distance *)
  Lemma lev_injective_renaming (f : Z -> Z) r h :
    inj_on f (r ++ h) -> lev ci cd cs (map f r) (map f h) = lev ci cd cs r h.
  Proof.
    intros H. rewrite <- (map_id r) at 2. rewrite <- (map_id h) at 2.
    apply lev_rename. apply inj_same_classes; [exact H|]. intros a b _ _ E. exact E.
  Qed.
End Lev.

(* what the accumulation needs of the per-pair edit count *)
Definition rename_invariant (E : list Z -> list Z -> Z) : Prop :=
  forall (e1 e2 : tk -> Z) r h, same_classes e1 e2 (r ++ h) ->
    E (map e1 r) (map e1 h) = E (map e2 r) (map e2 h).

Lemma lev_rename_invariant ci cd cs : rename_invariant (lev ci cd cs).
Proof. intros e1 e2 r h S. apply lev_rename. exact S. Qed.

(* ---------- the defaultdict numbering -------------------------------------------------------------- *)

Definition enc_tbl (tbl : list tk) (t : tk) : Z :=
  match index_of t tbl with Some i => Z.of_nat i | None => -1 end.

Lemma index_of_some t tbl i : index_of t tbl = Some i -> (i < length tbl)%nat /\ nth_error tbl i = Some t.
Proof.
  revert i. induction tbl as [|x r IH]; intros i; cbn [index_of]; [discriminate|].
  destruct (tk_eqb t x) eqn:E.
  - intros H. inversion H. subst. apply tk_eqb_iff in E. subst. cbn. split; [lia|reflexivity].
  - destruct (index_of t r) as [j|]; cbn [option_map]; [|discriminate].
    intros H. inversion H. subst. destruct (IH j eq_refl) as [H1 H2]. cbn. split; [lia|exact H2].
Qed.

Lemma index_of_none t tbl : index_of t tbl = None <-> ~ In t tbl.
Proof.
  induction tbl as [|x r IH]; cbn [index_of]; [split; [intros _ []|reflexivity]|].
  destruct (tk_eqb t x) eqn:E.
  - apply tk_eqb_iff in E. subst. split; [discriminate|]. intros H. exfalso. apply H. left. reflexivity.
  - destruct (index_of t r) as [j|] eqn:Ej; cbn [option_map].
    + split; [discriminate|]. intros H. exfalso. apply H. right.
      apply index_of_some in Ej. destruct Ej as [_ Ej]. eapply nth_error_In. exact Ej.
    + split; [|reflexivity]. intros _ [Hx|Hr].
      * subst. rewrite tk_eqb_refl in E. discriminate.
      * apply (proj1 IH); [reflexivity|exact Hr].
Qed.

Lemma index_of_app t tbl ext i : index_of t tbl = Some i -> index_of t (tbl ++ ext) = Some i.
Proof.
  revert i. induction tbl as [|x r IH]; intros i; cbn [index_of app]; [discriminate|].
  destruct (tk_eqb t x); [auto|].
  destruct (index_of t r) as [j|]; cbn [option_map]; [|discriminate].
  intros H. rewrite (IH j eq_refl). exact H.
Qed.

Lemma index_of_in t tbl : In t tbl -> exists i, index_of t tbl = Some i.
Proof.
  intros H. destruct (index_of t tbl) as [i|] eqn:E; [eauto|]. apply index_of_none in E. contradiction.
Qed.

Lemma enc_tbl_app t tbl ext : In t tbl -> enc_tbl (tbl ++ ext) t = enc_tbl tbl t.
Proof.
  intros H. destruct (index_of_in t tbl H) as [i Hi]. unfold enc_tbl. rewrite (index_of_app _ _ ext _ Hi), Hi. reflexivity.
Qed.

(* a token's id is its first position: different tokens of the table get different ids *)
Lemma enc_tbl_inj tbl : inj_on (enc_tbl tbl) tbl.
Proof.
  intros a b Ha Hb E. unfold enc_tbl in E.
  destruct (index_of_in a tbl Ha) as [i Hi]. destruct (index_of_in b tbl Hb) as [j Hj].
  rewrite Hi, Hj in E. apply Nat2Z.inj in E. subst j.
  apply index_of_some in Hi. apply index_of_some in Hj. destruct Hi as [_ Hi]. destruct Hj as [_ Hj]. congruence.
Qed.

Lemma get_id_spec tbl t : let '(tbl', i) := get_id tbl t in
  (exists ext, tbl' = tbl ++ ext) /\ In t tbl' /\ i = enc_tbl tbl' t.
Proof.
  unfold get_id. destruct (index_of t tbl) as [i|] eqn:E.
  - split; [exists []; symmetry; apply app_nil_r|]. split.
    + apply index_of_some in E. destruct E as [_ E]. eapply nth_error_In. exact E.
    + unfold enc_tbl. rewrite E. reflexivity.
  - split; [exists [t]; reflexivity|]. split; [apply in_app_iff; right; left; reflexivity|].
    unfold enc_tbl.
    assert (H : index_of t (tbl ++ [t]) = Some (length tbl)).
    { clear -E. induction tbl as [|x r IH]; cbn [index_of app length].
      - rewrite tk_eqb_refl. reflexivity.
      - cbn [index_of] in E. destruct (tk_eqb t x); [discriminate|].
        destruct (index_of t r); [discriminate|]. rewrite IH by reflexivity. reflexivity. }
    rewrite H. reflexivity.
Qed.

Lemma ids_of_spec rep ign tr : forall tbl, let '(tbl', ids) := ids_of rep ign tbl tr in
  (exists ext, tbl' = tbl ++ ext) /\ (forall t, In t (filtered rep ign tr) -> In t tbl')
  /\ ids = map (enc_tbl tbl') (filtered rep ign tr).
Proof.
  induction tr as [|t rest IH]; intros tbl; cbn [ids_of].
  - split; [exists []; symmetry; apply app_nil_r|]. split; [intros t []|reflexivity].
  - unfold filtered. cbn [map filter]. fold (filtered rep ign rest).
    destruct (ignored ign (apply_replace rep t)) eqn:Eg; cbn [negb].
    + apply IH.
    + pose proof (get_id_spec tbl (apply_replace rep t)) as G.
      destruct (get_id tbl (apply_replace rep t)) as [tbl1 i].
      destruct G as ([ext1 E1] & Hin1 & Hi).
      specialize (IH tbl1). destruct (ids_of rep ign tbl1 rest) as [tbl2 r].
      destruct IH as ([ext2 E2] & Hin2 & Hr).
      split; [exists (ext1 ++ ext2); rewrite E2, E1, app_assoc; reflexivity|]. split.
      * intros x [Hx|Hx]; [subst x; rewrite E2; apply in_app_iff; left; exact Hin1|apply Hin2; exact Hx].
      * cbn [map]. f_equal; [|exact Hr]. rewrite Hi, E2. symmetry. apply enc_tbl_app. exact Hin1.
Qed.

Lemma ids_of_list_spec rep ign trs : forall tbl, let '(tbl', idss) := ids_of_list rep ign tbl trs in
  (exists ext, tbl' = tbl ++ ext) /\ (forall tr t, In tr trs -> In t (filtered rep ign tr) -> In t tbl')
  /\ idss = map (fun tr => map (enc_tbl tbl') (filtered rep ign tr)) trs.
Proof.
  induction trs as [|tr rest IH]; intros tbl; cbn [ids_of_list].
  - split; [exists []; symmetry; apply app_nil_r|]. split; [intros ? ? []|reflexivity].
  - pose proof (ids_of_spec rep ign tr tbl) as G. destruct (ids_of rep ign tbl tr) as [tbl1 i].
    destruct G as ([ext1 E1] & Hin1 & Hi).
    specialize (IH tbl1). destruct (ids_of_list rep ign tbl1 rest) as [tbl2 r].
    destruct IH as ([ext2 E2] & Hin2 & Hr).
    split; [exists (ext1 ++ ext2); rewrite E2, E1, app_assoc; reflexivity|]. split.
    + intros tr' t [Ht|Ht] Hf; [subst tr'; rewrite E2; apply in_app_iff; left; apply Hin1; exact Hf|eapply Hin2; eassumption].
    + cbn [map]. f_equal; [|exact Hr]. rewrite Hi. apply map_ext_in. intros t Ht.
      rewrite E2. symmetry. apply enc_tbl_app. apply Hin1. exact Ht.
Qed.

(* ---------- the accumulation ------------------------------------------------------------------------ *)

Lemma in_firstn {A} n : forall (l : list A) x, In x (firstn n l) -> In x l.
Proof. induction n as [|n IH]; intros [|a l] x H; cbn [firstn] in H; try contradiction. destruct H as [H|H]; [left; exact H|right; apply IH; exact H]. Qed.

Lemma in_skipn {A} n : forall (l : list A) x, In x (skipn n l) -> In x l.
Proof. induction n as [|n IH]; intros [|a l] x H; cbn [skipn] in H; try contradiction; try exact H. right. apply IH. exact H. Qed.

Section Acc.
  Variable E0 : list Z -> list Z -> Z.
  Hypothesis Hinv : rename_invariant E0.
  Variables (rep : list (tk * tk)) (ign : list tk) (distances : bool).

  (* the row the property asks for, under a numbering [enc] *)
  Definition spec_row (enc : tk -> Z) (r h : str * list tk) : er_row :=
    (fst r, E0 (map enc (filtered rep ign (snd r))) (map enc (filtered rep ign (snd h))),
     if distances then 1 else Z.of_nat (length (filtered rep ign (snd r)))).

  Fixpoint spec_rows (enc : tk -> Z) (refs hyps : utts) : list er_row :=
    match refs, hyps with
    | r :: rs, h :: hs => spec_row enc r h :: spec_rows enc rs hs
    | _, _ => []
    end.

  Definition corpus_tokens (refs hyps : utts) : list tk :=
    concat (map (fun u => filtered rep ign (snd u)) refs) ++ concat (map (fun u => filtered rep ign (snd u)) hyps).

  Lemma er_rows_spec enc tbl : forall (refs hyps : utts) pos, length refs = length hyps ->
    inj_on enc (corpus_tokens refs hyps) ->
    (forall u t, In u (refs ++ hyps) -> In t (filtered rep ign (snd u)) -> In t tbl) ->
    er_rows (fun _ => E0) distances pos (map fst refs)
            (map (fun u => map (enc_tbl tbl) (filtered rep ign (snd u))) refs)
            (map (fun u => map (enc_tbl tbl) (filtered rep ign (snd u))) hyps)
    = spec_rows enc refs hyps.
  Proof.
    induction refs as [|r rs IH]; intros [|h hs] pos L Hinj Hin; cbn [map er_rows spec_rows]; try reflexivity; try discriminate.
    f_equal.
    - unfold spec_row. rewrite map_length. f_equal. f_equal.
      apply Hinv. apply inj_same_classes.
      + intros a b Ha Hb Eab. apply (enc_tbl_inj tbl); [| |exact Eab].
        * apply in_app_iff in Ha. destruct Ha as [Ha|Ha]; [apply (Hin r)|apply (Hin h)]; try exact Ha.
          -- left. reflexivity.
          -- apply in_app_iff. right. left. reflexivity.
        * apply in_app_iff in Hb. destruct Hb as [Hb|Hb]; [apply (Hin r)|apply (Hin h)]; try exact Hb.
          -- left. reflexivity.
          -- apply in_app_iff. right. left. reflexivity.
      + intros a b Ha Hb. apply Hinj; unfold corpus_tokens; cbn [map concat]; apply in_app_iff.
        * apply in_app_iff in Ha. destruct Ha as [Ha|Ha]; [left|right]; apply in_app_iff; left; exact Ha.
        * apply in_app_iff in Hb. destruct Hb as [Hb|Hb]; [left|right]; apply in_app_iff; left; exact Hb.
    - apply IH.
      + cbn [length] in L. lia.
      + intros a b Ha Hb. apply Hinj; unfold corpus_tokens in *; cbn [map concat]; apply in_app_iff.
        * apply in_app_iff in Ha. destruct Ha as [Ha|Ha]; [left|right]; apply in_app_iff; right; exact Ha.
        * apply in_app_iff in Hb. destruct Hb as [Hb|Hb]; [left|right]; apply in_app_iff; right; exact Hb.
      + intros u t Hu Ht. apply (Hin u t); [|exact Ht].
        apply in_app_iff in Hu. cbn [app]. destruct Hu as [Hu|Hu]; [right; apply in_app_iff; left; exact Hu|].
        right. apply in_app_iff. right. right. exact Hu.
  Qed.

  Lemma spec_rows_app enc : forall a a' b b', length a = length b ->
    spec_rows enc (a ++ a') (b ++ b') = spec_rows enc a b ++ spec_rows enc a' b'.
  Proof.
    induction a as [|x a IH]; intros a' [|y b] b' L; cbn [app spec_rows length] in *; try reflexivity; try discriminate.
    f_equal. apply IH. lia.
  Qed.

  Lemma inj_on_incl {T} (e : T -> Z) l l' : incl l' l -> inj_on e l -> inj_on e l'.
  Proof. intros I H a b Ha Hb. apply H; apply I; assumption. Qed.

  Lemma corpus_tokens_incl (refs' hyps' refs hyps : utts) :
    incl refs' refs -> incl hyps' hyps -> incl (corpus_tokens refs' hyps') (corpus_tokens refs hyps).
  Proof.
    intros I1 I2 t Ht. unfold corpus_tokens in *. apply in_app_iff in Ht. apply in_app_iff.
    destruct Ht as [Ht|Ht]; [left|right]; apply in_concat in Ht; destruct Ht as [l [Hl Ht]];
      apply in_map_iff in Hl; destruct Hl as [u [Eu Hu]]; subst l; apply in_concat;
      exists (filtered rep ign (snd u)); (split; [|exact Ht]);
      apply (in_map (fun u => filtered rep ign (snd u))); [apply I1|apply I2]; exact Hu.
  Qed.

  (* whatever the batch size, the accumulated rows are the specified ones *)
  Lemma er_batches_spec enc bs : (1 <= bs)%nat -> forall fuel pos tbl (refs hyps : utts),
    length refs = length hyps -> (length refs < fuel)%nat ->
    inj_on enc (corpus_tokens refs hyps) ->
    er_batches (fun _ => E0) rep ign distances fuel bs pos tbl refs hyps = spec_rows enc refs hyps.
  Proof.
    intros Hbs. induction fuel as [|fuel IH]; intros pos tbl refs hyps L F Hinj; [lia|].
    cbn [er_batches]. destruct refs as [|r0 rs0] eqn:Er.
    - destruct hyps; reflexivity.
    - rewrite <- Er in *.
      pose proof (ids_of_list_spec rep ign (map snd (firstn bs refs)) tbl) as G1.
      destruct (ids_of_list rep ign tbl (map snd (firstn bs refs))) as [tbl1 rids].
      destruct G1 as ([ext1 E1] & Hin1 & Hr).
      pose proof (ids_of_list_spec rep ign (map snd (firstn bs hyps)) tbl1) as G2.
      destruct (ids_of_list rep ign tbl1 (map snd (firstn bs hyps))) as [tbl2 hids].
      destruct G2 as ([ext2 E2] & Hin2 & Hh).
      replace (spec_rows enc refs hyps) with (spec_rows enc (firstn bs refs ++ skipn bs refs) (firstn bs hyps ++ skipn bs hyps))
        by (rewrite !firstn_skipn; reflexivity).
      assert (Lf : length (firstn bs refs) = length (firstn bs hyps)) by (rewrite !firstn_length; lia).
      rewrite spec_rows_app by exact Lf.
      assert (Sub1 : incl (corpus_tokens (firstn bs refs) (firstn bs hyps)) (corpus_tokens refs hyps))
        by (apply corpus_tokens_incl; intros x Hx; eapply in_firstn; exact Hx).
      assert (Sub2 : incl (corpus_tokens (skipn bs refs) (skipn bs hyps)) (corpus_tokens refs hyps))
        by (apply corpus_tokens_incl; intros x Hx; eapply in_skipn; exact Hx).
      f_equal.
      + (* this batch: the references were numbered with tbl1, a prefix of tbl2 *)
        assert (Hr' : rids = map (fun u => map (enc_tbl tbl2) (filtered rep ign (snd u))) (firstn bs refs)).
        { rewrite Hr, map_map. apply map_ext_in. intros u Hu. apply map_ext_in. intros t Ht.
          rewrite E2. symmetry. apply enc_tbl_app. apply (Hin1 (snd u)); [apply in_map; exact Hu|exact Ht]. }
        assert (Hh' : hids = map (fun u => map (enc_tbl tbl2) (filtered rep ign (snd u))) (firstn bs hyps)).
        { rewrite Hh, map_map. reflexivity. }
        rewrite Hr', Hh'. apply er_rows_spec; [exact Lf|eapply inj_on_incl; eassumption|].
        intros u t Hu Ht. apply in_app_iff in Hu. destruct Hu as [Hu|Hu].
        * rewrite E2. apply in_app_iff. left. apply (Hin1 (snd u)); [apply in_map; exact Hu|exact Ht].
        * apply (Hin2 (snd u)); [apply in_map; exact Hu|exact Ht].
      + apply IH.
        * rewrite !skipn_length. lia.
        * rewrite skipn_length. rewrite Er in *. cbn [length] in *. lia.
        * eapply inj_on_incl; eassumption.
  Qed.
End Acc.

(* ---------- pairing ------------------------------------------------------------------------------------ *)

Lemma str_ltb_false_eq a b : str_ltb a b = false -> str_ltb b a = false -> a = b.
Proof.
  unfold str_ltb. intros H1 H2. pose proof good_str as G.
  rewrite (g_opp _ G a b) in H2.
  destruct (str_cmp a b) eqn:E; cbn [CompOpp] in *; try discriminate.
  apply (g_eq _ G). exact E.
Qed.

(* the pairs handed to the accumulation carry the same utterance ids, position by position *)
Lemma pair_up_aligned fuel warn : forall refs hyps a b,
  pair_up fuel warn refs hyps = Done (a, b) -> map fst a = map fst b /\ incl a refs /\ incl b hyps.
Proof.
  induction fuel as [|fuel IH]; intros refs hyps a b H; cbn [pair_up] in H.
  - inversion H. subst. repeat split; intros ? [].
  - destruct refs as [|r rs], hyps as [|h hs].
    + inversion H. subst. repeat split; intros ? [].
    + destruct warn; [|discriminate]. apply IH in H. destruct H as (H1 & H2 & H3).
      repeat split; [exact H1|exact H2|intros x Hx; right; apply H3; exact Hx].
    + destruct warn; [|discriminate]. apply IH in H. destruct H as (H1 & H2 & H3).
      repeat split; [exact H1|intros x Hx; right; apply H2; exact Hx|exact H3].
    + destruct (str_ltb (fst r) (fst h)) eqn:E1.
      * destruct warn; [|discriminate]. apply IH in H. destruct H as (H1 & H2 & H3).
        repeat split; [exact H1|intros x Hx; right; apply H2; exact Hx|exact H3].
      * destruct (str_ltb (fst h) (fst r)) eqn:E2.
        -- destruct warn; [|discriminate]. apply IH in H. destruct H as (H1 & H2 & H3).
           repeat split; [exact H1|exact H2|intros x Hx; right; apply H3; exact Hx].
        -- destruct (pair_up fuel warn rs hs) as [[a' b']|e] eqn:Ep; [|discriminate].
           inversion H. subst. apply IH in Ep. destruct Ep as (H1 & H2 & H3).
           repeat split.
           ++ cbn [map]. f_equal; [apply str_ltb_false_eq; assumption|exact H1].
           ++ intros x [Hx|Hx]; [left; exact Hx|right; apply H2; exact Hx].
           ++ intros x [Hx|Hx]; [left; exact Hx|right; apply H3; exact Hx].
Qed.

(* ---------- totals ---------------------------------------------------------------------------------------- *)

Lemma spec_rows_total E0 rep ign distances enc : forall (refs hyps : utts), length refs = length hyps ->
  let rows := spec_rows E0 rep ign distances enc refs hyps in
  (sumZ (map (fun r : er_row => snd (fst r)) rows),
   if distances then Z.of_nat (length rows) else sumZ (map (fun r : er_row => snd r) rows))
  = er_total_spec (fun _ => E0) enc rep ign distances (combine (map snd refs) (map snd hyps)).
Proof.
  unfold er_total_spec.
  induction refs as [|r rs IH]; intros [|h hs] L; cbn [length] in L; try discriminate.
  - cbn. destruct distances; reflexivity.
  - assert (L' : length rs = length hs) by lia. specialize (IH hs L'). cbn zeta in IH.
    inversion IH as [[H1 H2]]. clear IH.
    cbn [spec_rows map combine length fst snd]. unfold sumZ in *. cbn [fold_right].
    unfold spec_row at 1 2. cbn [fst snd]. rewrite H1.
    f_equal. destruct distances.
    + rewrite !Nat2Z.inj_succ. rewrite H2. reflexivity.
    + rewrite H2. reflexivity.
Qed.

(* a numbering that is injective on any given corpus exists: first positions *)
Lemma enc_exists (l : list tk) : inj_on (enc_tbl l) l.
Proof. apply enc_tbl_inj. Qed.

Lemma er_batch_size_irrelevant E0 rep ign distances bs1 bs2 (refs hyps : utts) :
  rename_invariant E0 -> (1 <= bs1)%nat -> (1 <= bs2)%nat -> length refs = length hyps ->
  er_batches (fun _ => E0) rep ign distances (S (length refs)) bs1 0 [] refs hyps
  = er_batches (fun _ => E0) rep ign distances (S (length refs)) bs2 0 [] refs hyps.
Proof.
  intros Hinv H1 H2 L.
  rewrite (er_batches_spec E0 Hinv rep ign distances (enc_tbl (corpus_tokens rep ign refs hyps)) bs1 H1)
    by (try apply enc_exists; lia).
  rewrite (er_batches_spec E0 Hinv rep ign distances (enc_tbl (corpus_tokens rep ign refs hyps)) bs2 H2)
    by (try apply enc_exists; lia).
  reflexivity.
Qed.

(* the whole command in total mode *)
Lemma er_command_total E0 o i2t pre suf (rd hd : dir) refs0 hyps0 refs hyps enc :
  rename_invariant E0 -> (1 <= eo_batch o)%nat -> eo_per_utt o = false ->
  load_dir i2t pre suf None true rd = Done refs0 -> load_dir i2t pre suf None true hd = Done hyps0 ->
  pair_up (S (length refs0 + length hyps0)) (eo_warn_missing o) (tokens_of refs0) (tokens_of hyps0) = Done (refs, hyps) ->
  inj_on enc (corpus_tokens (eo_rep o) (eo_ign o) refs hyps) ->
  error_rates (fun _ => E0) o i2t pre suf rd hd =
  let '(n, d) := er_total_spec (fun _ => E0) enc (eo_rep o) (eo_ign o) (eo_distances o)
                               (combine (map snd refs) (map snd hyps)) in
  if d =? 0 then Fail EZeroDiv else Done (Total n d).
Proof.
  intros Hinv Hb Hp Hr Hh Hpair Hinj. unfold error_rates. rewrite Hr, Hh, Hpair, Hp.
  assert (L : length refs = length hyps).
  { destruct (pair_up_aligned _ _ _ _ _ _ Hpair) as [E _]. rewrite <- (map_length fst refs), E. apply map_length. }
  rewrite (er_batches_spec E0 Hinv (eo_rep o) (eo_ign o) (eo_distances o) enc (eo_batch o) Hb) by (try assumption; lia).
  pose proof (spec_rows_total E0 (eo_rep o) (eo_ign o) (eo_distances o) enc refs hyps L) as T. cbn zeta in T.
  destruct (er_total_spec (fun _ => E0) enc (eo_rep o) (eo_ign o) (eo_distances o) (combine (map snd refs) (map snd hyps))) as [n d].
  inversion T as [[T1 T2]]. rewrite T1. reflexivity.
Qed.
