(* C10, second source tie — policy 'fixed', whole function: for every input tensor with at least two dimensions, every
   in_lens (omitted, or N lengths), window type, validity setting and lobe size >= 0, the interpreted source of
   `slice_spect_data` returns exactly the windows and sources of Model.slice_fixed (repaired = what /repo does today). *)
From Coq Require Import ZArith QArith List String Bool Arith Lia ZifyBool ZifyNat.
From PV Require Import MiniPy.Syntax MiniPy.Interp MiniTorch.Ops MiniTorch.Value MiniTorch.Lemmas.
From PV Require Import MiniTorch.OpsC10 MiniTorch.ValueC10 MiniTorch.LemmasC10 MiniTorch.OpsC10B MiniTorch.LemmasC10B Gen.C10BSrc.
From PV Require Import C10.SrcRun C10.SrcRunB C10.TieBCommon C10.TieBPrefix C10.TieBFixed C10.TieModel.
From PV Require C10.Model.
Import ListNotations.
Local Open Scope string_scope.
#[local] Arguments enc10 : simpl never.
#[local] Arguments dec10 : simpl never.
#[local] Arguments then_ : simpl never.
#[local] Arguments Z.of_nat : simpl never.

Lemma filter_map' : forall {A B} (p : B -> bool) (g : A -> B) l, filter p (map g l) = map g (filter (fun x => p (g x)) l).
Proof. induction l as [|x l IH]; cbn; [reflexivity|]. destruct (p (g x)); cbn; now rewrite IH. Qed.

(* the model's list, row by row, is the image of the kept (row, window) pairs *)
Lemma fixed_out_kept : forall N k s e m (ls : option (list Z)),
  flat_map (fun n => map (fun w => (Model.win_of w, Z.of_nat n))
                         (match ls with
                          | None => D1 k (fun i => (s i, e i, m i))
                          | Some l => filter (fun w => (nth n l 0 >? snd w)%Z) (D1 k (fun i => (s i, e i, m i)))
                          end)) (seq 0 N)
  = map (fun p => ((s (snd p), e (snd p)), Z.of_nat (fst p))) (kept2 N k (fixed_keep (option_map lfun ls) m)).
Proof.
  intros. unfold kept2. rewrite map_flat_map'. apply flat_map_ext_in'. intros n _.
  rewrite map_map. unfold D1. destruct ls as [l|]; cbn [option_map fixed_keep].
  - rewrite filter_map', map_map. reflexivity.
  - rewrite filter_true, map_map. reflexivity.
Qed.

Lemma fixed_result_model : forall N k s e m ls out,
  out = map (fun p => ((s (snd p), e (snd p)), Z.of_nat (fst p))) (kept2 N k (fixed_keep (option_map lfun ls) m)) ->
  fixed_slices N k s e (fixed_keep (option_map lfun ls) m) = slices_tensor (map fst out)
  /\ fixed_sources N k (fixed_keep (option_map lfun ls) m) = vec_tensor (map snd out).
Proof.
  intros N k s e m ls out ->. unfold fixed_slices, fixed_sources, slices_tensor, vec_tensor, V1.
  rewrite !map_length, !map_map. cbn [fst snd]. split.
  - f_equal. rewrite flat_map_map'. reflexivity.
  - reflexivity.
Qed.

Lemma wt_ok_name : forall w, wt_ok (wt_name w) = true.
Proof. destruct w; reflexivity. Qed.

Theorem fixed_tie : forall N T rest data ol in_lens w vo lobe out,
  T <> 0%nat -> (0 <= lobe)%Z ->
  Model.slice_fixed Model.repaired N (Z.of_nat T) in_lens w vo lobe = Some out ->
  exists st, run_slice_raw (mkIT (N :: T :: rest) data) (option_map vec_tensor in_lens) ol "fixed" (wt_name w) vo lobe
             = Ok (slices_value out) st.
Proof.
  intros N T rest data ol in_lens w vo lobe out HT Hl Hm.
  destruct (fixed_head N T rest data (option_map vec_tensor in_lens) ol lobe w vo HT Hl)
    as (k & s & e & m & vs & Hrun & Hs & He & Hmi & HN & Hd & Hil & Hw).
  assert (Hlen : match in_lens with Some l => List.length l = N | None => True end).
  { destruct in_lens as [l|]; [|exact I]. unfold Model.slice_fixed in Hm.
    destruct (Nat.eqb_spec (List.length l) N); [assumption|discriminate]. }
  assert (Hil' : lookup "in_lens" vs = Some (opt_tensor (option_map (I1 N) (option_map lfun in_lens)))).
  { rewrite Hil. destruct in_lens as [l|]; [|reflexivity]. cbn [option_map]. now rewrite vec_tensor_tab, Hlen. }
  destruct (fixed_tail_run N k s e m (option_map lfun in_lens) vs Hs He Hmi HN Hd Hil') as (vs' & Htail & Hsl & Hso).
  assert (Hout : out = map (fun p => ((s (snd p), e (snd p)), Z.of_nat (fst p)))
                           (kept2 N k (fixed_keep (option_map lfun in_lens) m))).
  { rewrite <- fixed_out_kept, <- Hw. unfold Model.slice_fixed in Hm. destruct in_lens as [l|].
    - rewrite Hlen, Nat.eqb_refl in Hm. now inversion Hm.
    - now inversion Hm. }
  destruct (fixed_result_model N k s e m in_lens out Hout) as [E1 E2].
  eexists. apply run_of_exec. rewrite prefix_run by (try assumption; apply wt_ok_name).
  unfold fixed_block, fixed_tail in Hrun, Htail. unfold slice_body in Hrun, Htail |- *.
  cbn [drop_seq seq_head if_then] in Hrun, Htail |- *.
  rewrite exec_seq'.
  match goal with |- context [then_ ?b] => remember b as RET end.
  match goal with |- context [SIf ?c ?t ?f] => remember t as TB; remember f as FB end.
  cbn [exec eval bind vars events lookup prefix_vars String.eqb Ascii.eqb Bool.eqb rich foreign cmp_eval val_eqb andb orb truthy].
  subst TB. rewrite Hrun, Htail. cbn [bind]. rewrite then_normal. subst RET.
  clear HeqFB Hrun Htail. cbn. rewrite Hsl. cbn. rewrite Hso. cbn.
  unfold slices_value. rewrite <- E1, <- E2. reflexivity.
Qed.

(* the executable form the harness evaluates *)
Theorem src_slice_fixed_tie : forall N T in_lens ol w vo lobe out,
  T <> 0%nat -> (0 <= lobe)%Z ->
  Model.slice_fixed Model.repaired N (Z.of_nat T) in_lens w vo lobe = Some out ->
  exists st, run_slice T (Model.InFixed N) in_lens ol w vo lobe = Ok (slices_value out) st.
Proof.
  intros N T in_lens ol w vo lobe out HT Hl Hm. unfold run_slice, slice_vars. cbn [input_tensor policy_name].
  unfold full. exact (fixed_tie N T [] _ (option_map vec_tensor ol) in_lens w vo lobe out HT Hl Hm).
Qed.

(* every policy, every input: empty sequences give two empty tensors; a negative lobe size raises *)
Theorem slice_empty : forall N rest data il ol policy wt vo lobe,
  exists st, run_slice_raw (mkIT (N :: 0%nat :: rest) data) il ol policy wt vo lobe
             = Ok (VTuple [enc10 (empty [0; 2]%nat); enc10 (empty [0%nat])]) st.
Proof.
  intros. destruct (prefix_empty N 0 rest data il ol policy wt vo lobe eq_refl) as [st H].
  exists st. now apply run_of_exec.
Qed.

Theorem slice_raises_lobe : forall N T rest data il ol policy wt vo lobe, T <> 0%nat -> (lobe < 0)%Z ->
  exists st, run_slice_raw (mkIT (N :: T :: rest) data) il ol policy wt vo lobe = Exc runtime_error st.
Proof.
  intros N T rest data il ol policy wt vo lobe HT Hl.
  destruct (prefix_neg_lobe N T rest data il ol policy wt vo lobe HT Hl) as [st H]. exists st. now apply run_of_exc.
Qed.

Theorem slice_raises_window : forall N T rest data il ol policy wt vo lobe, T <> 0%nat -> (0 <= lobe)%Z -> wt_ok wt = false ->
  exists st, run_slice_raw (mkIT (N :: T :: rest) data) il ol policy wt vo lobe = Exc runtime_error st.
Proof.
  intros N T rest data il ol policy wt vo lobe HT Hl Hw.
  destruct (prefix_bad_window N T rest data il ol policy wt vo lobe HT Hl Hw) as [st H]. exists st. now apply run_of_exc.
Qed.

(* ---- composed with the model theorem sd_fixed_windows_spec: a statement purely about the interpreted source ---- *)
From PV Require C10.Spec C10.Proofs C10.ProofsFixed.

Theorem source_fixed_windows_spec : forall N T in_lens ol w vo lobe,
  (1 <= T)%nat -> (0 <= lobe)%Z -> ProofsFixed.lens_ok N (Z.of_nat T) in_lens ->
  exists out st, run_slice T (Model.InFixed N) in_lens ol w vo lobe = Ok (slices_value out) st
                 /\ Spec.fixed_spec N (ProofsFixed.len_of (Z.of_nat T) in_lens) w vo lobe out.
Proof.
  intros N T in_lens ol w vo lobe HT Hl Hok.
  destruct (Proofs.sd_fixed_windows_spec Model.repaired N T in_lens ol w vo lobe eq_refl HT Hl Hok) as (out & Hm & Hspec).
  unfold Model.slice_spect_data in Hm.
  replace (Nat.eqb T 0) with false in Hm by (symmetry; apply Nat.eqb_neq; lia).
  replace (lobe <? 0)%Z with false in Hm by lia.
  destruct (src_slice_fixed_tie N T in_lens ol w vo lobe out ltac:(lia) Hl Hm) as [st Hrun].
  exists out, st. split; assumption.
Qed.

(* the policy's name, for statements in files that do not open string_scope *)
Definition fixed_name : string := "fixed".
