(* C04 — every batch element of the model of Model.v (flat state list, columns with junk,
   global grow / freeze decisions) follows the junk-free single-element search of
   Abstract.v, and stays as it is once it is done. *)
From Coq Require Import List Arith Lia ZArith Bool.
From PV Require Import C04.Model C04.Spec C04.Lists C04.Topk C04.Abstract.
Import ListNotations.
Local Open Scope nat_scope.

Section Refine.
Context {state : Type}.
Variable topk : nat -> list score -> list nat.
Variable calc : list Z -> state -> nat -> list score * state.
Variable dstate : state.
Variables (V width : nat) (eos : option Z) (fin_all : bool) (pad : Z).

Hypothesis Htopk : topk_ok topk.
Hypothesis Hlm : lm_ok calc V.
Hypothesis HV : 1 <= V.
Hypothesis Hwidth : 1 <= width.

Let calc_prefix := proj1 Hlm.
Let calc_len := proj2 Hlm.

Local Notation aslot := (@aslot state).
Local Notation adflt := (adflt dstate).
Local Notation anorm := (anorm dstate eos).
Local Notation afin := (@afin state eos).
Local Notation alive := (@alive state eos).
Local Notation astep := (astep topk calc dstate V width eos).
Local Notation acands := (acands calc eos).
Local Notation aext := (aext calc dstate V eos).
Local Notation arow := (arow calc eos).
Local Notation adone := (@adone state eos fin_all).
Local Notation atick := (atick topk calc dstate V width eos fin_all).
Local Notation arun := (arun topk calc dstate V width eos fin_all).
Local Notation awidth := (awidth dstate width).
Local Notation asearch := (asearch topk calc dstate V width eos fin_all).
Local Notation AInv := (AInv calc dstate V width eos).
Local Notation AJ := (AJ calc dstate V width eos fin_all).
Local Notation step := (step topk calc dstate V width eos fin_all pad).
Local Notation loop := (loop topk calc dstate V width eos fin_all pad).
Local Notation search := (search topk calc dstate V width eos fin_all pad).
Local Notation elem_step := (elem_step topk calc dstate V width eos fin_all pad).
Local Notation lm_out := (lm_out calc dstate V).
Local Notation in_next := (in_next calc dstate V).
Local Notation logp_of := (logp_of calc dstate V eos).
Local Notation st_of := (st_of dstate).
Local Notation eos_at := (eos_at eos).
Local Notation done_of := (done_of eos fin_all).
Local Notation pfin := (pfin eos).
Local Notation pad_row := (pad_row pad).

(* ---- the view of a slot the caller may rely on, and the abstraction ------------------ *)
Definition vslot (sl : slot) : list Z * score := (vpath sl, sc sl).
Definition vaslot (a : aslot) : list Z * score := (apath a, asc a).
Definition alpha (t : nat) (p : slot * state) : aslot :=
  anorm t (mkA (vpath (fst p)) (sc (fst p)) (snd p)).
Definition cbeam (b : @bstate state) (n : nat) : list slot := nth n (beams b) [].
Definition cstates (b : @bstate state) (n : nat) : list state := map (st_of b n) (seq 0 (pw b)).
Definition abs (t : nat) (b : @bstate state) (n : nat) : list aslot :=
  map (alpha t) (combine (cbeam b n) (cstates b n)).

Lemma vaslot_alpha t p : vaslot (alpha t p) = vslot (fst p).
Proof. unfold vaslot, alpha, vslot. now rewrite anorm_path, anorm_sc. Qed.

Record CWf (N t : nat) (b : @bstate state) : Prop := mkCWf
  { cw_N : length (beams b) = N;
    cw_pw : pw b = if t =? 0 then 1 else width;
    cw_row : forall n, n < N -> length (cbeam b n) = pw b;
    cw_hS : t <> 0 -> hS b <> 0;
    cw_hS0 : t = 0 -> hS b = 0;
    cw_slot : forall n sl, n < N -> In sl (cbeam b n) ->
              len sl <= length (col sl) /\ hS b <= length (col sl) /\ (t = 0 -> col sl = []) }.

Lemma cstates_length b n : length (cstates b n) = pw b.
Proof. unfold cstates. now rewrite map_length, seq_length. Qed.

Lemma abs_length N t b n : CWf N t b -> n < N -> length (abs t b n) = pw b.
Proof.
  intros H Hn. unfold abs. rewrite map_length, combine_length, cstates_length, (cw_row _ _ _ H) by exact Hn. lia.
Qed.

Lemma map_vaslot_abs N t b n : CWf N t b -> n < N ->
  map vaslot (abs t b n) = map vslot (cbeam b n).
Proof.
  intros H Hn. unfold abs. rewrite map_map.
  rewrite (map_ext _ (fun p => vslot (fst p))) by (intros; apply vaslot_alpha).
  rewrite <- (map_map fst vslot). f_equal. apply map_fst_combine.
  now rewrite cstates_length, (cw_row _ _ _ H).
Qed.

Lemma abs_nth N t b n k : CWf N t b -> n < N -> k < pw b ->
  nth k (abs t b n) adflt = alpha t (nth k (cbeam b n) dslot, st_of b n k).
Proof.
  intros H Hn Hk. unfold abs.
  rewrite (nth_map_lt _ _ _ (dslot, dstate)).
  2:{ rewrite combine_length, cstates_length, (cw_row _ _ _ H) by exact Hn. lia. }
  rewrite combine_nth by (now rewrite cstates_length, (cw_row _ _ _ H)).
  unfold cstates. now rewrite nth_map_seq.
Qed.

(* ---- finished / done agree on both sides --------------------------------------------- *)
Lemma eos_at_pfin t sl : len sl <= length (col sl) -> eos_at t sl = pfin t (vpath sl).
Proof.
  intros Hl. unfold Model.eos_at, Abstract.pfin, last_tok, vpath. destruct eos as [e|]; [|reflexivity].
  f_equal. rewrite firstn_length_le by exact Hl.
  destruct (len sl) as [|l] eqn:El; [cbn; now rewrite !andb_false_r|].
  rewrite last_nth, firstn_length_le by lia. rewrite nth_firstn_lt by lia. reflexivity.
Qed.

Lemma done_of_adone t (slots : list slot) (x : list aslot) :
  (forall sl, In sl slots -> len sl <= length (col sl)) ->
  map vslot slots = map vaslot x -> done_of t slots = adone t x.
Proof.
  intros Hwf Hv. unfold Model.done_of, Abstract.adone.
  assert (Hm : map (eos_at t) slots = map (afin t) x).
  { revert x Hv. induction slots as [|sl slots IH]; intros [|a x] Hv; cbn in Hv; try discriminate; [reflexivity|].
    injection Hv as Hp Hs Hr. cbn [map]. f_equal.
    - rewrite eos_at_pfin by (apply Hwf; now left). unfold Abstract.afin. now rewrite Hp.
    - apply IH; [intros; apply Hwf; now right|exact Hr]. }
  now rewrite Hm.
Qed.

(* ---- clamping does nothing to tokens of the vocabulary ---------------------------------- *)
Lemma clampz_id x : (0 <= x < Z.of_nat V)%Z -> clampz V x = x.
Proof. unfold clampz. lia. Qed.

Lemma firstn_clamp (c : list Z) l : in_vocab V (firstn l c) -> firstn l (map (clampz V) c) = firstn l c.
Proof.
  intros H. apply firstn_map_id. eapply Forall_impl; [|exact H]. intros x Hx. now apply clampz_id.
Qed.

Lemma dec_len_map t (slots : list slot) (adv : list slot * list nat) :
  length (fst adv) = length (snd adv) ->
  dec_len eos t slots adv =
  map (fun p => mkSlot (col (fst p)) (len (fst p) - (if eos_at t (nth (snd p) slots dslot) then 1 else 0)) (sc (fst p)))
      (combine (fst adv) (snd adv)).
Proof.
  intros Hl. unfold dec_len. destruct eos eqn:Ee; [reflexivity|].
  rewrite <- (map_fst_combine (fst adv) (snd adv) Hl) at 1. apply map_ext.
  intros [[c l s] j]. cbn. unfold Model.eos_at. now rewrite Nat.sub_0_r.
Qed.

Lemma eos_at_0 sl : eos_at 0 sl = false.
Proof. unfold Model.eos_at. now destruct eos. Qed.

Lemma done_of_0 (slots : list slot) : done_of 0 slots = false.
Proof.
  unfold Model.done_of. replace (active eos 0) with false by (unfold active; now destruct eos).
  cbn [andb]. destruct slots; [reflexivity|]. cbn [map hd]. apply eos_at_0.
Qed.

Lemma done_of_pos t (slots : list slot) : done_of t slots = true -> t <> 0.
Proof. intros H ->. rewrite done_of_0 in H. discriminate. Qed.

Definition next_hS (h : nat) (grow : bool) : nat := next_height h grow.

Lemma next_hS_eq h grow : next_hS h grow = match h with 0 => 1 | S _ => S h end.
Proof.
  unfold next_hS, next_height, adv_height. destruct h as [|h]; [reflexivity|].
  destruct grow.
  - replace (S (S h) =? S h) with false; [reflexivity|]. symmetry. apply Nat.eqb_neq. lia.
  - now rewrite Nat.eqb_refl.
Qed.

(* whether forward() appends the pad row after beam_search_advance *)
Definition padded (h : nat) (grow : bool) : bool := adv_height h grow =? h.

Lemma padded_eq h grow : padded h grow = negb (h =? 0) && negb grow.
Proof.
  unfold padded, adv_height. destruct h as [|h]; [reflexivity|]. destruct grow.
  - transitivity false; [apply Nat.eqb_neq; lia|reflexivity].
  - rewrite Nat.eqb_refl. reflexivity.
Qed.

(* ---- one element, one step --------------------------------------------------------------- *)
Section Elem.
Variables (N t : nat) (b : @bstate state) (n : nat) (s0 : state).
Hypothesis Hwf : CWf N t b.
Hypothesis Hn : n < N.
Let slots := cbeam b n.
Let x := abs t b n.
Hypothesis Hinv : AInv s0 t x.

Let Hrow : length slots = pw b := cw_row _ _ _ Hwf n Hn.

Lemma x_length : length x = pw b.
Proof. unfold x. eapply abs_length; eassumption. Qed.

Lemma slot_wf k : k < pw b -> let sl := nth k slots dslot in
  len sl <= length (col sl) /\ hS b <= length (col sl) /\ (t = 0 -> col sl = []).
Proof.
  intros Hk sl. apply (cw_slot _ _ _ Hwf n); [exact Hn|]. apply nth_In. change (k < length slots). now rewrite Hrow.
Qed.

Lemma x_nth k : k < pw b -> nth k x adflt = alpha t (nth k slots dslot, st_of b n k).
Proof. intros Hk. unfold x. eapply abs_nth; eassumption. Qed.

Lemma x_vocab k : k < pw b -> in_vocab V (vpath (nth k slots dslot)).
Proof.
  intros Hk. assert (H : In (nth k x adflt) x) by (apply nth_In; now rewrite x_length).
  apply (ai_vocab _ _ _ _ _ _ _ _ Hinv) in H. rewrite x_nth in H by exact Hk.
  unfold alpha in H. now rewrite anorm_path in H.
Qed.

Lemma afin_x k : k < pw b -> afin t (nth k x adflt) = eos_at t (nth k slots dslot).
Proof.
  intros Hk. rewrite x_nth by exact Hk. unfold alpha. rewrite anorm_afin. unfold Abstract.afin. cbn [apath fst].
  symmetry. apply eos_at_pfin. now apply slot_wf.
Qed.

Lemma asc_x k : k < pw b -> asc (nth k x adflt) = sc (nth k slots dslot).
Proof. intros Hk. rewrite x_nth by exact Hk. unfold alpha. now rewrite anorm_sc. Qed.

Lemma apath_x k : k < pw b -> apath (nth k x adflt) = vpath (nth k slots dslot).
Proof. intros Hk. rewrite x_nth by exact Hk. unfold alpha. now rewrite anorm_path. Qed.

(* a live finite slot: full length, state kept by the abstraction, LM sees the same history *)
Lemma live_x k : k < pw b -> alive t (nth k x adflt) = true ->
  len (nth k slots dslot) = t /\ ast (nth k x adflt) = st_of b n k /\
  calc (map (clampz V) (col (nth k slots dslot))) (st_of b n k) t
  = calc (apath (nth k x adflt)) (ast (nth k x adflt)) t.
Proof.
  intros Hk Hal. set (sl := nth k slots dslot).
  destruct (slot_wf k Hk) as (Hl & _). fold sl in Hl.
  assert (Hin : In (nth k x adflt) x) by (apply nth_In; now rewrite x_length).
  destruct (ai_live _ _ _ _ _ _ _ _ Hinv _ Hin Hal) as (Hlen & _).
  rewrite apath_x in Hlen by exact Hk. fold sl in Hlen. unfold vpath in Hlen.
  rewrite firstn_length_le in Hlen by exact Hl.
  assert (Hst : ast (nth k x adflt) = st_of b n k).
  { pose proof Hal as Hal'. rewrite x_nth in Hal' |- * by exact Hk. unfold alpha in *.
    rewrite anorm_alive in Hal'. now rewrite anorm_st_alive. }
  split; [exact Hlen|]. split; [exact Hst|]. rewrite Hst, apath_x by exact Hk. fold sl.
  apply calc_prefix. unfold vpath. rewrite Hlen.
  rewrite firstn_firstn, Nat.min_id. apply firstn_clamp.
  pose proof (x_vocab k Hk) as Hv. fold sl in Hv. unfold vpath in Hv. now rewrite Hlen in Hv.
Qed.

Lemma lm_out_eq k : lm_out t b n k = calc (map (clampz V) (col (nth k slots dslot))) (st_of b n k) t.
Proof. reflexivity. Qed.

(* the rows of candidate scores agree *)
Lemma row_eq k : k < pw b ->
  map (sadd (sc (nth k slots dslot))) (mask_row eos (eos_at t (nth k slots dslot)) (fst (lm_out t b n k)))
  = map (sadd (asc (nth k x adflt))) (arow t (nth k x adflt)).
Proof.
  intros Hk. rewrite asc_x by exact Hk. unfold Abstract.arow. rewrite afin_x by exact Hk.
  destruct (sc (nth k slots dslot)) as [z|] eqn:Esc.
  2:{ (* -inf prefix: every candidate is -inf, whatever the row says *)
    apply (nth_ext _ _ None None).
    - rewrite !map_length, !(mask_row_length eos). rewrite lm_out_eq. now rewrite !calc_len.
    - intros i Hi. rewrite map_length in Hi.
      rewrite (nth_map_lt _ _ _ (None : score)) by exact Hi.
      rewrite (nth_map_lt _ _ _ (None : score)).
      + reflexivity.
      + rewrite mask_row_length in *. rewrite lm_out_eq in Hi. now rewrite calc_len in *. }
  destruct (eos_at t (nth k slots dslot)) eqn:Ee.
  - (* finished: the row is replaced, only its length matters *)
    unfold mask_row. destruct eos; [|unfold Model.eos_at in Ee; discriminate]. rewrite lm_out_eq. now rewrite !calc_len.
  - (* live *)
    assert (Hal : alive t (nth k x adflt) = true).
    { unfold Abstract.alive. rewrite asc_x, afin_x, Esc, Ee by exact Hk. reflexivity. }
    destruct (live_x k Hk Hal) as (_ & _ & Hc). rewrite lm_out_eq, Hc. reflexivity.
Qed.

Lemma logp_length : length (logp_of t b n) = pw b.
Proof. unfold Model.logp_of. now rewrite map_length, seq_length. Qed.

Lemma cands_eq : cands (map (clamp_slot V) slots) (logp_of t b n) = acands t x.
Proof.
  unfold cands, Abstract.acands. f_equal.
  apply (nth_ext _ _ [] []).
  - rewrite !map_length, combine_length, map_length, logp_length, x_length, Hrow. lia.
  - intros k Hk. rewrite map_length, combine_length, map_length, logp_length, Hrow, Nat.min_id in Hk.
    rewrite (nth_map_lt _ _ _ (dslot, [])) by (rewrite combine_length, map_length, logp_length, Hrow; lia).
    rewrite combine_nth by (now rewrite map_length, logp_length, Hrow).
    rewrite (nth_map_lt _ _ _ adflt) by (now rewrite x_length).
    cbn [fst snd]. rewrite (nth_map_lt _ _ _ dslot) by (now rewrite Hrow).
    unfold Model.logp_of. fold slots. unfold cbeam in slots. rewrite nth_map_seq by exact Hk.
    cbn [clamp_slot sc]. now apply row_eq.
Qed.

Let cs := cands (map (clamp_slot V) slots) (logp_of t b n).
Let K := Nat.min width (length slots * V).
Let ind := topk K cs.

Lemma cs_length : length cs = pw b * V.
Proof.
  unfold cs, cands. rewrite (concat_uniform_length _ V).
  - now rewrite map_length, combine_length, map_length, logp_length, Hrow, Nat.min_id.
  - intros r Hr. apply in_map_iff in Hr. destruct Hr as ([sl row] & <- & Hin). cbn [fst snd].
    rewrite map_length. apply in_combine_r in Hin. unfold Model.logp_of in Hin.
    apply in_map_iff in Hin. destruct Hin as (k & <- & _).
    now rewrite (mask_row_length eos), lm_out_eq, calc_len.
Qed.

Lemma cs_abs : cs = acands t x.
Proof. apply cands_eq. Qed.

Lemma K_eq : K = Ksel V width x.
Proof. unfold K, Ksel. now rewrite x_length, Hrow. Qed.

Lemma K_le : K <= length cs.
Proof. rewrite cs_length. unfold K. rewrite Hrow. lia. Qed.

Lemma ind_facts : length ind = K /\ NoDup ind /\ (forall i, In i ind -> i < pw b * V).
Proof.
  destruct (Htopk K cs K_le) as (H1 & H2 & H3 & _). fold ind in H1, H2, H3.
  rewrite cs_length in H3. auto.
Qed.

Variables (grow frz : bool).
Hypothesis Hgrow : grow = grow_flag (hS b) (beams b).

Let innext := in_next t b.
Let adv := advance1 topk V width (hS b) true grow (map (clamp_slot V) slots) (logp_of t b n).

(* the new concrete slot / state made from candidate i *)
Definition cext (i : nat) : slot :=
  ext_slot (hS b) true grow (clamp_slot V (nth (i / V) slots dslot)) (Z.of_nat (i mod V)) (nth i cs None).
Definition cnew (i : nat) : slot :=
  let e := pad_row (hS b) grow (cext i) in
  mkSlot (col e) (len e - (if eos_at t (nth (i / V) slots dslot) then 1 else 0)) (sc e).
Definition cpad0 : slot := mkSlot (repeat 0%Z (hS b + 1)) 0 None.
Definition cpad : slot := pad_row (hS b) grow cpad0.

Lemma pad_row_len sl : len (pad_row (hS b) grow sl) = len sl.
Proof. unfold Model.pad_row. now destruct (adv_height (hS b) grow =? hS b). Qed.
Lemma pad_row_sc sl : sc (pad_row (hS b) grow sl) = sc sl.
Proof. unfold Model.pad_row. now destruct (adv_height (hS b) grow =? hS b). Qed.
Lemma pad_row_col sl : col (pad_row (hS b) grow sl) = if padded (hS b) grow then col sl ++ [pad] else col sl.
Proof. unfold Model.pad_row, padded. now destruct (adv_height (hS b) grow =? hS b). Qed.

Lemma adv_fst : fst adv = map cext ind ++ repeat cpad0 (width - K).
Proof.
  unfold adv, advance1. fold cs. rewrite map_length. fold K. fold ind. cbn [fst].
  f_equal. apply map_ext_in. intros i Hi. unfold cext.
  destruct ind_facts as (_ & _ & Hlt). specialize (Hlt i Hi).
  rewrite (nth_map_lt _ _ _ dslot); [reflexivity|]. rewrite Hrow. apply div_lt_rows; lia.
Qed.

Lemma adv_snd : snd adv = map (fun i => i / V) ind ++ repeat 0 (width - K).
Proof. unfold adv, advance1. fold cs. rewrite map_length. fold K. fold ind. reflexivity. Qed.

Lemma combine_map_app {A B C} (f : C -> A) (g : C -> B) (l : list C) (a : A) (c : B) m :
  combine (map f l ++ repeat a m) (map g l ++ repeat c m) = map (fun i => (f i, g i)) l ++ repeat (a, c) m.
Proof.
  induction l as [|y l IH]; cbn.
  - induction m; cbn; congruence.
  - now rewrite IH.
Qed.

Let adv' := (map (pad_row (hS b) grow) (fst adv), snd adv).

Lemma map_repeat {A B} (f : A -> B) (y : A) m : map f (repeat y m) = repeat (f y) m.
Proof. induction m; cbn; congruence. Qed.

Lemma dec_len_eq : dec_len eos t slots adv'
  = map cnew ind ++ repeat cpad (width - K).
Proof.
  assert (Hl : length (fst adv') = length (snd adv')).
  { unfold adv'. cbn [fst snd]. rewrite map_length, adv_fst, adv_snd, !app_length, !map_length, !repeat_length. reflexivity. }
  rewrite (dec_len_map t slots adv' Hl). unfold adv'. cbn [fst snd].
  rewrite adv_fst, adv_snd, map_app, map_map, map_repeat. fold cpad.
  rewrite combine_map_app, map_app, map_map, map_repeat. f_equal.
  f_equal. unfold cpad. cbn [fst snd]. rewrite pad_row_len, pad_row_sc. unfold cpad0. cbn [len sc].
  destruct (pad_row (hS b) grow {| col := repeat 0%Z (hS b + 1); len := 0; sc := None |}) as [c l s0'] eqn:E.
  cbn [col len sc]. f_equal.
  - pose proof (pad_row_len {| col := repeat 0%Z (hS b + 1); len := 0; sc := None |}) as H1. rewrite E in H1. cbn in H1.
    subst l. destruct (eos_at t (nth 0 slots dslot)); reflexivity.
  - pose proof (pad_row_sc {| col := repeat 0%Z (hS b + 1); len := 0; sc := None |}) as H1. rewrite E in H1. cbn in H1.
    now subst s0'.
Qed.

Lemma elem_step_fst : frz && done_of t slots = false ->
  fst (elem_step t b grow frz innext n) = map cnew ind ++ repeat cpad (width - K).
Proof.
  intros Hf. unfold Model.elem_step. change (nth n (beams b) []) with slots. cbn [fst]. rewrite Hf. apply dec_len_eq.
Qed.

Lemma elem_step_snd :
  snd (elem_step t b grow frz innext n)
  = map (fun i => nth (n * pw b + i / V) innext dstate) ind
    ++ repeat (nth (n * pw b + 0) innext dstate) (width - K).
Proof.
  unfold Model.elem_step. change (nth n (beams b) []) with slots. cbn [snd]. fold adv. rewrite adv_snd, map_app, map_map. f_equal.
  induction (width - K); cbn; congruence.
Qed.

Lemma elem_step_snd_length : length (snd (elem_step t b grow frz innext n)) = width.
Proof.
  rewrite elem_step_snd, app_length, map_length, repeat_length.
  destruct ind_facts as (-> & _). unfold K. lia.
Qed.

Lemma innext_nth k : k < pw b -> nth (n * pw b + k) innext dstate = snd (lm_out t b n k).
Proof.
  intros Hk. unfold innext, Model.in_next. rewrite (cw_N _ _ _ Hwf).
  rewrite (nth_flat_rows dstate (pw b) N); [| |exact Hn|exact Hk].
  - now rewrite nth_map_seq.
  - intros m _. now rewrite map_length, seq_length.
Qed.

Lemma no_grow_short k : k < pw b -> grow = false -> len (nth k slots dslot) < hS b \/ hS b = 0.
Proof.
  intros Hk Eg. set (sl := nth k slots dslot). destruct (hS b) as [|h] eqn:EhS; [now right|left].
  destruct (S h <=? len sl) eqn:E; [|now apply Nat.leb_gt in E]. exfalso.
  assert (Hex : existsb (fun sl => S h <=? len sl) (concat (beams b)) = true).
  { apply existsb_exists. exists sl. split; [|exact E]. apply in_concat. exists slots.
    split; [apply nth_In; now rewrite (cw_N _ _ _ Hwf)|apply nth_In; now rewrite Hrow]. }
  rewrite Hgrow in Eg. unfold grow_flag in Eg. rewrite Hex in Eg. discriminate.
Qed.

(* sizes of the raw extension (no invariant needed) *)
Lemma cext_len i : i < pw b * V ->
  len (cext i) <= length (col (cext i)) /\ adv_height (hS b) grow <= length (col (cext i)).
Proof.
  intros Hi. set (k := i / V). assert (Hk : k < pw b) by (apply div_lt_rows; lia).
  destruct (slot_wf k Hk) as (Hl & HhS & _). unfold cext. fold k.
  pose proof (no_grow_short k Hk) as Hng.
  set (sl := nth k slots dslot) in *. unfold adv_height.
  destruct (hS b) as [|h] eqn:EhS; cbn [ext_slot col len clamp_slot].
  - cbn. lia.
  - rewrite set_nth_length.
    destruct grow eqn:Eg.
    + rewrite app_length, map_length. cbn [length]. lia.
    + rewrite map_length. destruct (Hng eq_refl) as [H|H]; lia.
Qed.

(* the valid prefix of the raw extension, after the length correction *)
Lemma cext_path i : i < pw b * V ->
  let sl := nth (i / V) slots dslot in
  firstn (len (cext i) - (if eos_at t sl then 1 else 0)) (col (cext i))
  = if eos_at t sl then vpath sl else vpath sl ++ [Z.of_nat (i mod V)].
Proof.
  intros Hi. set (k := i / V). assert (Hk : k < pw b) by (apply div_lt_rows; lia). cbn zeta. fold k.
  set (sl := nth k slots dslot). destruct (slot_wf k Hk) as (Hl & HhS & Ht0). fold sl in Hl, HhS, Ht0.
  set (v := Z.of_nat (i mod V)). unfold cext. fold k sl v.
  pose proof (no_grow_short k Hk) as Hng. fold sl in Hng.
  destruct (hS b) as [|h] eqn:EhS.
  - (* first step: columns are empty *)
    assert (Ht : t = 0) by (destruct t; [reflexivity|exfalso; now apply (cw_hS _ _ _ Hwf)]).
    cbn [ext_slot col len]. rewrite Ht, eos_at_0. unfold vpath. rewrite (Ht0 Ht).
    destruct (len sl); reflexivity.
  - cbn [ext_slot clamp_slot col len].
    set (X := if grow then map (clampz V) (col sl) ++ [v] else map (clampz V) (col sl)).
    assert (HX : firstn (len sl) X = vpath sl).
    { unfold X, vpath. destruct grow.
      - rewrite firstn_app_le by (now rewrite map_length). apply firstn_clamp. apply (x_vocab k Hk).
      - apply firstn_clamp. apply (x_vocab k Hk). }
    destruct (eos_at t sl).
    + replace (len sl + 1 - 1) with (len sl) by lia. now rewrite firstn_set_nth_same.
    + replace (len sl + 1 - 0) with (S (len sl)) by lia.
      rewrite firstn_set_nth_S; [now rewrite HX|].
      unfold X. destruct grow eqn:Eg.
      * rewrite app_length, map_length. cbn. lia.
      * rewrite map_length. destruct (Hng eq_refl) as [H|H]; lia.
Qed.

(* the new slot and state of candidate i abstract to the abstract extension *)
Lemma cnew_alpha i : i < pw b * V ->
  alpha (S t) (cnew i, nth (n * pw b + i / V) innext dstate) = aext t x (acands t x) i.
Proof.
  intros Hi. rewrite <- cs_abs. set (k := i / V). assert (Hk : k < pw b) by (apply div_lt_rows; lia).
  rewrite innext_nth by exact Hk.
  set (sl := nth k slots dslot). destruct (slot_wf k Hk) as (Hl & HhS & Ht0). fold sl in Hl, HhS, Ht0.
  set (v := Z.of_nat (i mod V)).
  assert (Hvr : (0 <= v < Z.of_nat V)%Z) by (unfold v; pose proof (Nat.mod_upper_bound i V); lia).
  (* the valid prefix of the new concrete slot *)
  assert (Hpath : vpath (cnew i) = if eos_at t sl then vpath sl else vpath sl ++ [v]).
  { destruct (cext_len i Hi) as (Hle & _). pose proof (cext_path i Hi) as Hp. fold k sl v in Hp, Hle.
    unfold cnew, vpath. fold k sl. cbn [col len]. rewrite pad_row_len, pad_row_col.
    destruct (padded (hS b) grow); [|exact Hp].
    rewrite firstn_app_le; [exact Hp|]. destruct (eos_at t sl); lia. }
  assert (Hsc : sc (cnew i) = nth i cs None).
  { unfold cnew. cbn [sc]. rewrite pad_row_sc. unfold cext. destruct (hS b); cbn; reflexivity. }
  unfold alpha, Abstract.aext. cbn [fst snd]. fold k.
  rewrite Hpath, Hsc, (afin_x k Hk), (apath_x k Hk). fold sl v.
  (* both sides are [anorm (S t)] of records that differ at most in the state, and the state
     only matters when the new slot is live *)
  set (p' := if eos_at t sl then vpath sl else vpath sl ++ [v]).
  unfold Abstract.anorm.
  assert (Hal : alive (S t) (mkA p' (nth i cs None) (snd (lm_out t b n k)))
              = alive (S t) (mkA p' (nth i cs None) (snd (calc (vpath sl) (ast (nth k x adflt)) t)))) by reflexivity.
  rewrite <- Hal. destruct (alive (S t) (mkA p' (nth i cs None) (snd (lm_out t b n k)))) eqn:Eal; [|reflexivity].
  f_equal.
  (* live new slot => live source *)
  unfold Abstract.alive in Eal. cbn [asc] in Eal. apply andb_prop in Eal. destruct Eal as [Ef Enf].
  destruct (acands_nth calc dstate V width eos Hlm HV Hwidth t x i) as (_ & _ & Hnth); [now rewrite x_length|].
  rewrite <- cs_abs in Hnth. fold k in Hnth. rewrite Hnth in Ef. apply sadd_fin_l in Ef.
  assert (Esl : eos_at t sl = false).
  { destruct (eos_at t sl) eqn:E; [|reflexivity]. exfalso.
    unfold Abstract.afin in Enf. cbn [apath] in Enf. unfold p' in Enf.
    rewrite eos_at_pfin in E by exact Hl.
    destruct (pfin_true_pos eos t _ E) as (Htn & _). rewrite (pfin_S eos t _ Htn), E in Enf. discriminate. }
  assert (Hals : alive t (nth k x adflt) = true).
  { unfold Abstract.alive. rewrite Ef, (afin_x k Hk). fold sl. now rewrite Esl. }
  destruct (live_x k Hk Hals) as (_ & _ & Hc). fold sl in Hc.
  rewrite lm_out_eq. fold sl. rewrite Hc, (apath_x k Hk). reflexivity.
Qed.

Lemma cpad_alpha st : alpha (S t) (cpad, st) = adflt.
Proof.
  unfold alpha, Abstract.anorm, Abstract.alive, vpath. cbn [fst snd]. unfold cpad.
  rewrite pad_row_len, pad_row_sc. reflexivity.
Qed.

(* ---- facts that do not need the invariant (they hold for frozen elements too) ------------- *)
Lemma padded_height (c : list Z) : adv_height (hS b) grow <= length c ->
  next_hS (hS b) grow <= length (if padded (hS b) grow then c ++ [pad] else c).
Proof.
  intros H. unfold next_hS, next_height, padded. destruct (adv_height (hS b) grow =? hS b).
  - rewrite app_length. cbn. lia.
  - exact H.
Qed.

Lemma cnew_wf i : i < pw b * V ->
  len (cnew i) <= length (col (cnew i)) /\ next_hS (hS b) grow <= length (col (cnew i)).
Proof.
  intros Hi. destruct (cext_len i Hi) as (H1 & H2). unfold cnew. cbn [col len].
  rewrite pad_row_len, pad_row_col. split; [|now apply padded_height].
  destruct (padded (hS b) grow); [rewrite app_length; cbn|]; destruct (eos_at t _); lia.
Qed.

Lemma cpad_wf : len cpad <= length (col cpad) /\ next_hS (hS b) grow <= length (col cpad).
Proof.
  unfold cpad. rewrite pad_row_len, pad_row_col. unfold cpad0. cbn [len col]. split; [lia|].
  apply padded_height. rewrite repeat_length. unfold adv_height. destruct (hS b); [lia|]. destruct grow; lia.
Qed.

Lemma to_width_id : t <> 0 -> to_width topk width (hS b) slots = slots.
Proof.
  intros Ht. unfold to_width. rewrite Hrow, (cw_pw _ _ _ Hwf).
  apply Nat.eqb_neq in Ht. rewrite Ht, Nat.ltb_irrefl. reflexivity.
Qed.

Lemma elem_step_frozen : frz && done_of t slots = true ->
  fst (elem_step t b grow frz innext n)
  = map (fun sl => mkSlot (col sl ++ [pad]) (len sl) (sc sl)) slots.
Proof.
  intros Hf. unfold Model.elem_step. change (nth n (beams b) []) with slots. cbn [fst]. rewrite Hf.
  unfold freeze. rewrite to_width_id; [reflexivity|].
  apply andb_prop in Hf. eapply done_of_pos. apply Hf.
Qed.

Lemma elem_step_fst_length : length (fst (elem_step t b grow frz innext n)) = width.
Proof.
  destruct (frz && done_of t slots) eqn:Ef.
  - rewrite elem_step_frozen, map_length, Hrow, (cw_pw _ _ _ Hwf) by exact Ef.
    apply andb_prop in Ef. destruct Ef as [_ Ef]. apply done_of_pos in Ef.
    apply Nat.eqb_neq in Ef. now rewrite Ef.
  - rewrite elem_step_fst, app_length, map_length, repeat_length by exact Ef.
    destruct ind_facts as (-> & _). unfold K. lia.
Qed.

Lemma elem_step_slot_wf sl : In sl (fst (elem_step t b grow frz innext n)) ->
  len sl <= length (col sl) /\ next_hS (hS b) grow <= length (col sl).
Proof.
  destruct (frz && done_of t slots) eqn:Ef.
  - rewrite elem_step_frozen by exact Ef. intros Hin. apply in_map_iff in Hin.
    destruct Hin as (s & <- & Hs). cbn [len col]. rewrite app_length. cbn [length].
    destruct (cw_slot _ _ _ Hwf n s Hn Hs) as (H1 & H2 & _). split; [lia|].
    rewrite next_hS_eq. destruct (hS b); lia.
  - rewrite elem_step_fst by exact Ef. intros Hin. apply in_app_or in Hin. destruct Hin as [Hin|Hin].
    + apply in_map_iff in Hin. destruct Hin as (i & <- & Hi). apply cnew_wf.
      destruct ind_facts as (_ & _ & Hlt). now apply Hlt.
    + apply repeat_spec in Hin. subst sl. apply cpad_wf.
Qed.

Lemma frozen_vslot : frz && done_of t slots = true ->
  map vslot (fst (elem_step t b grow frz innext n)) = map vslot slots.
Proof.
  intros Hf. rewrite elem_step_frozen by exact Hf. rewrite map_map. apply map_ext_in.
  intros sl Hs. unfold vslot, vpath. cbn [col len sc]. f_equal.
  apply firstn_app_le. now destruct (cw_slot _ _ _ Hwf n sl Hn Hs).
Qed.

(* ---- the live element: its abstraction takes one abstract step ------------------------------ *)
Lemma live_abs_step : frz && done_of t slots = false ->
  map (alpha (S t)) (combine (fst (elem_step t b grow frz innext n)) (snd (elem_step t b grow frz innext n)))
  = astep t x.
Proof.
  intros Hf. rewrite elem_step_fst by exact Hf. rewrite elem_step_snd, combine_map_app, map_app, map_map.
  unfold Abstract.astep. rewrite x_length.
  replace (Nat.min width (pw b * V)) with K by (unfold K; now rewrite Hrow).
  rewrite <- cs_abs. fold ind. f_equal.
  - apply map_ext_in. intros i Hi. rewrite cs_abs. apply cnew_alpha.
    destruct ind_facts as (_ & _ & Hlt). now apply Hlt.
  - induction (width - K) as [|m IH]; [reflexivity|]. cbn [repeat map]. now rewrite IH, cpad_alpha.
Qed.

End Elem.

(* ---- one iteration of the batched loop ------------------------------------------------------ *)
Lemma flat_map_map {A B C} (f : A -> B) (g : B -> list C) (l : list A) :
  flat_map g (map f l) = flat_map (fun a => g (f a)) l.
Proof. induction l; cbn; [reflexivity|]. now rewrite IHl. Qed.

Lemma map_nth_all {A} (d : A) (l : list A) : map (fun k => nth k l d) (seq 0 (length l)) = l.
Proof.
  apply (nth_ext _ _ d d).
  - now rewrite map_length, seq_length.
  - intros k Hk. rewrite map_length, seq_length in Hk. now rewrite nth_map_seq.
Qed.

Lemma done_of_eos t (slots : list slot) : done_of t slots = true -> eos <> None.
Proof.
  intros H E. unfold Model.done_of, active, Model.eos_at in H. rewrite E in H. cbn [andb] in H.
  destruct slots; cbn in H; discriminate.
Qed.

Section Step.
Variables (N t : nat) (b b' : @bstate state).
Hypothesis Hwf : CWf N t b.
Hypothesis Hstep : step t b = Some b'.

Let grow := grow_flag (hS b) (beams b).
Let dones := map (done_of t) (beams b).
Let frz := match eos with Some _ => existsb (fun x => x) dones | None => false end.
Let estep := elem_step t b grow frz (in_next t b).

Lemma step_form : b' = mkB (map fst (map estep (seq 0 N))) (flat_map snd (map estep (seq 0 N))) width
                           (next_hS (hS b) grow).
Proof.
  unfold Model.step in Hstep. rewrite (cw_N _ _ _ Hwf) in Hstep.
  destruct (active eos t && forallb (fun x => x) (map (done_of t) (beams b))); [discriminate|].
  injection Hstep as <-. reflexivity.
Qed.

Lemma step_not_all_done : active eos t && forallb (fun x => x) dones = false.
Proof.
  unfold Model.step in Hstep. fold dones in Hstep.
  destruct (active eos t && forallb (fun x => x) dones); [discriminate|reflexivity].
Qed.

Lemma frz_done n : n < N -> frz && done_of t (cbeam b n) = done_of t (cbeam b n).
Proof.
  intros Hn. destruct (done_of t (cbeam b n)) eqn:Ed; [|apply andb_false_r].
  rewrite andb_true_r. unfold frz. pose proof (done_of_eos _ _ Ed) as He.
  destruct eos; [|congruence]. apply existsb_exists. exists true. split; [|reflexivity].
  unfold dones. rewrite <- Ed. apply in_map. apply nth_In. now rewrite (cw_N _ _ _ Hwf).
Qed.

Lemma cbeam_step n : n < N -> cbeam b' n = fst (estep n).
Proof.
  intros Hn. rewrite step_form. unfold cbeam. cbn [beams].
  rewrite map_map, (nth_map_seq (fun m => fst (estep m)) [] N n Hn). reflexivity.
Qed.

Lemma pw_step : pw b' = width.
Proof. now rewrite step_form. Qed.

Lemma cstates_step n : n < N -> cstates b' n = snd (estep n).
Proof.
  intros Hn. unfold cstates. rewrite pw_step.
  assert (Hl : length (snd (estep n)) = width).
  { unfold estep. now apply (elem_step_snd_length N). }
  rewrite <- (map_nth_all dstate (snd (estep n))). rewrite Hl.
  apply map_ext_in. intros k Hk. apply in_seq in Hk.
  unfold Model.st_of. rewrite pw_step. rewrite step_form at 1. cbn [prev].
  rewrite flat_map_map. rewrite (nth_flat_rows dstate width N); [reflexivity| |exact Hn|lia].
  intros m Hm. unfold estep. now apply (elem_step_snd_length N).
Qed.

Lemma step_wf : CWf N (S t) b'.
Proof.
  constructor.
  - rewrite step_form. cbn [beams]. now rewrite !map_length, seq_length.
  - now rewrite pw_step.
  - intros n Hn. rewrite cbeam_step, pw_step by exact Hn. unfold estep. now apply (elem_step_fst_length N).
  - intros _. rewrite step_form. cbn [hS]. rewrite next_hS_eq. destruct (hS b); lia.
  - discriminate.
  - intros n sl Hn Hin. rewrite cbeam_step in Hin by exact Hn.
    destruct (elem_step_slot_wf N t b n Hwf Hn grow frz eq_refl sl Hin) as (H1 & H2).
    rewrite step_form. cbn [hS]. split; [exact H1|]. split; [exact H2|discriminate].
Qed.

(* the per-element relation between the batched state and the single-element search *)
Definition Rel (s0 : state) (t : nat) (b : @bstate state) (n : nat) (x : list aslot) : Prop :=
  AJ s0 t x /\ map vslot (cbeam b n) = map vaslot x /\ (adone t x = false -> abs t b n = x).

Lemma Rel_done s0 n x : n < N -> Rel s0 t b n x -> done_of t (cbeam b n) = adone t x.
Proof.
  intros Hn (_ & Hv & _). apply done_of_adone; [|exact Hv].
  intros sl Hs. now destruct (cw_slot _ _ _ Hwf n sl Hn Hs).
Qed.

Lemma Rel_step s0 n x : n < N -> Rel s0 t b n x -> Rel s0 (S t) b' n (atick t x).
Proof.
  intros Hn HR. pose proof (Rel_done s0 n x Hn HR) as Hd. destruct HR as (HJ & Hv & Ha).
  pose proof (AJ_tick topk calc dstate V width eos fin_all Htopk Hlm HV Hwidth s0 t x HJ) as HJ'.
  split; [exact HJ'|]. unfold Abstract.atick in *. destruct (adone t x) eqn:Ed.
  - (* frozen *)
    assert (Hf : frz && done_of t (cbeam b n) = true) by (now rewrite frz_done, Hd).
    split.
    + rewrite cbeam_step by exact Hn. unfold estep. rewrite (frozen_vslot N t b n Hwf Hn grow frz Hf). exact Hv.
    + intros Hnd. exfalso. pose proof (done_of_pos _ _ Hd) as Ht.
      rewrite (adone_S eos fin_all t x Ht) in Hnd. congruence.
  - (* live: one abstract step *)
    assert (Hf : frz && done_of t (cbeam b n) = false) by (now rewrite frz_done, Hd).
    specialize (Ha eq_refl).
    assert (Hinv : AInv s0 t x).
    { destruct HJ as [H|(t' & H0 & Hlt & _ & Hd')]; [exact H|].
      rewrite (@adone_later state V width eos fin_all HV Hwidth t' t x H0) in Ed by lia. congruence. }
    rewrite <- Ha in Hinv.
    pose proof (live_abs_step N t b n s0 Hwf Hn Hinv grow frz eq_refl Hf) as Hl.
    fold estep in Hl. rewrite <- cbeam_step, <- cstates_step in Hl by exact Hn.
    change (abs (S t) b' n = astep t (abs t b n)) in Hl. rewrite Ha in Hl.
    split; [|intros _; exact Hl].
    rewrite <- Hl. symmetry. apply (map_vaslot_abs N (S t)); [apply step_wf|exact Hn].
Qed.
End Step.

(* ---- the loop ---------------------------------------------------------------------------------- *)
Lemma arun_done fuel : forall t x, adone t x = true -> t <> 0 -> arun fuel t x = x.
Proof.
  induction fuel as [|f IH]; intros t x Hd Ht; cbn [Abstract.arun]; [reflexivity|].
  unfold Abstract.atick. rewrite Hd. apply IH; [|lia]. now rewrite adone_S.
Qed.

Lemma step_None t (b : @bstate state) : step t b = None ->
  t <> 0 /\ forall n, n < length (beams b) -> done_of t (cbeam b n) = true.
Proof.
  unfold Model.step. destruct (active eos t && forallb (fun x => x) (map (done_of t) (beams b))) eqn:E; [|discriminate].
  intros _. apply andb_prop in E. destruct E as [Ea Ef]. split.
  - intros ->. unfold active in Ea. destruct eos; discriminate.
  - intros n Hn. rewrite forallb_forall in Ef. apply Ef. apply in_map. now apply nth_In.
Qed.

Lemma loop_refine (N : nat) (s0s : nat -> state) : forall fuel t b (xs : nat -> list aslot),
  CWf N t b -> (forall n, n < N -> Rel (s0s n) t b n (xs n)) ->
  (exists t', CWf N t' (fst (loop fuel t b))) /\
  forall n, n < N -> map vslot (cbeam (fst (loop fuel t b)) n) = map vaslot (arun fuel t (xs n)).
Proof.
  induction fuel as [|f IH]; intros t b xs Hwf HR; cbn [Model.loop Abstract.arun].
  - split; [now exists t|]. intros n Hn. now destruct (HR n Hn) as (_ & Hv & _).
  - destruct (step t b) as [b'|] eqn:Es.
    + apply (IH (S t) b' (fun n => atick t (xs n))).
      * eapply step_wf; eassumption.
      * intros n Hn. eapply Rel_step; eauto.
    + cbn [fst]. split; [now exists t|]. intros n Hn.
      destruct (step_None t b Es) as (Ht & Hd).
      assert (Hdn : adone t (xs n) = true).
      { rewrite <- (Rel_done N t b Hwf (s0s n) n (xs n) Hn (HR n Hn)). apply Hd. now rewrite (cw_N _ _ _ Hwf). }
      change (arun f (S t) (atick t (xs n))) with (arun (S f) t (xs n)).
      rewrite arun_done by assumption. now destruct (HR n Hn) as (_ & Hv & _).
Qed.

(* ---- forward() ----------------------------------------------------------------------------------- *)
Lemma init_wf (inits : list state) : CWf (length inits) 0 (init_b inits).
Proof.
  constructor; unfold init_b; cbn [beams pw hS].
  - now rewrite map_length.
  - reflexivity.
  - intros n Hn. unfold cbeam. cbn [beams].
    rewrite (nth_map_lt _ _ _ dstate) by exact Hn. reflexivity.
  - congruence.
  - reflexivity.
  - intros n sl Hn Hin. unfold cbeam in Hin. cbn [beams] in Hin.
    rewrite (nth_map_lt _ _ _ dstate) in Hin by exact Hn. destruct Hin as [<-|[]]. cbn. auto.
Qed.

Lemma init_rel (inits : list state) n : n < length inits ->
  Rel (nth n inits dstate) 0 (init_b inits) n (ainit (nth n inits dstate)).
Proof.
  intros Hn. assert (Hc : cbeam (init_b inits) n = [mkSlot [] 0 (Some 0%Z)]).
  { unfold cbeam, init_b. cbn [beams]. now rewrite (nth_map_lt _ _ _ dstate) by exact Hn. }
  split; [left; now apply AInv_init|]. split.
  - rewrite Hc. reflexivity.
  - intros _. unfold abs, cstates. rewrite Hc. change (pw (init_b inits)) with 1. cbn [seq map combine].
    unfold Model.st_of. change (pw (init_b inits)) with 1. change (prev (init_b inits)) with inits.
    rewrite Nat.mul_1_r, Nat.add_0_r.
    unfold alpha, Abstract.anorm, Abstract.alive, Abstract.afin. cbn [fst snd sc vpath len col firstn apath asc sfin].
    rewrite pfin_0. reflexivity.
Qed.

Lemma to_width_vslot (S : nat) (slots : list slot) (x : list aslot) :
  length slots = 1 \/ length slots = width ->
  map vslot slots = map vaslot x ->
  map vslot (to_width topk width S slots) = map vaslot (awidth x).
Proof.
  intros Hl Hv. assert (Hlx : length x = length slots).
  { apply (f_equal (@length _)) in Hv. now rewrite !map_length in Hv. }
  unfold to_width, Abstract.awidth. rewrite Hlx.
  destruct (length slots <? width) eqn:E1.
  - rewrite !map_app, Hv. f_equal.
    induction (width - length slots) as [|m IH]; [reflexivity|]. cbn [repeat map]. now rewrite IH.
  - apply Nat.ltb_ge in E1. replace (width <? length slots) with false; [exact Hv|].
    symmetry. apply Nat.ltb_ge. lia.
Qed.

Theorem search_refines fuel (inits : list state) :
  let out := fst (fst (search fuel inits)) in
  length out = length inits /\
  forall n, n < length inits ->
    map vslot (nth n out []) = map vaslot (asearch fuel (nth n inits dstate)) /\
    forall sl, In sl (nth n out []) -> len sl <= length (col sl).
Proof.
  cbn zeta. unfold Model.search. cbn [fst].
  set (N := length inits).
  destruct (loop_refine N (fun n => nth n inits dstate) fuel 0 (init_b inits)
              (fun n => ainit (nth n inits dstate)) (init_wf inits) (init_rel inits))
    as ((t' & Hwf) & Href).
  set (bf := fst (loop fuel 0 (init_b inits))) in *.
  split; [now rewrite map_length, (cw_N _ _ _ Hwf)|].
  intros n Hn.
  assert (Hnth : nth n (map (to_width topk width (hS bf)) (beams bf)) [] = to_width topk width (hS bf) (cbeam bf n)).
  { unfold cbeam. rewrite (nth_map_lt _ _ _ []) by (now rewrite (cw_N _ _ _ Hwf)). reflexivity. }
  rewrite Hnth.
  assert (Hlen : length (cbeam bf n) = 1 \/ length (cbeam bf n) = width).
  { rewrite (cw_row _ _ _ Hwf n Hn), (cw_pw _ _ _ Hwf). destruct (t' =? 0); auto. }
  split.
  - unfold Abstract.asearch. apply to_width_vslot; [exact Hlen|]. now apply Href.
  - intros sl Hin. unfold to_width in Hin.
    destruct (length (cbeam bf n) <? width).
    + apply in_app_or in Hin. destruct Hin as [Hin|Hin].
      * now destruct (cw_slot _ _ _ Hwf n sl Hn Hin).
      * apply repeat_spec in Hin. subst sl. cbn. lia.
    + destruct (width <? length (cbeam bf n)) eqn:E2.
      * apply Nat.ltb_lt in E2. lia.
      * now destruct (cw_slot _ _ _ Hwf n sl Hn Hin).
Qed.
End Refine.
