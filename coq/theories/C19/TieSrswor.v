(* C19 tie - `simple_random_sampling_without_replacement`: the symbolic run of the translated body
   (PV.Gen.C19Src.srswor_body) under MiniPy.Interp with the torch calls of SrcRun.ext19, statement by statement,
   for EVERY batch shape, count tensors, out_size, Bernoulli oracle and content of uninitialised memory.
   Result: the run either raises RuntimeError (a given count exceeds its total, or out_size is too small) or
   returns the tensor whose rows are the batch loop [bloop] (TieModel.v relates its rows to Model.srswor). *)
From Coq Require Import ZArith QArith List String Bool Arith Lia.
From PV Require Import MiniPy.Syntax MiniPy.Interp MiniPy.Lemmas.
From PV Require Import MiniTorch.Ops MiniTorch.Value MiniTorch.Lemmas MiniTorch.OpsC19 MiniTorch.LemmasC19 Gen.C19Src.
From PV Require Import C19.SrcRun C19.TieLib.
Import ListNotations.
Local Open Scope string_scope.
Local Open Scope list_scope.

(* the 12 statements of the body; the loop body's 5 *)
Definition parts : list stmt := Eval cbv [flatten_seq srswor_body app] in flatten_seq srswor_body.
Definition loop_stmt : stmt := Eval cbv [parts nth] in nth 10 parts SPass.
Definition loop_body : stmt := Eval cbv [loop_stmt] in match loop_stmt with SFor _ _ b => b | _ => SPass end.
Definition body_parts : list stmt := Eval cbv [flatten_seq loop_body app] in flatten_seq loop_body.

#[local] Arguments enc_sh : simpl never.
#[local] Arguments enc_dat : simpl never.
#[local] Arguments dec : simpl never.
#[local] Arguments ext19 : simpl never.
#[local] Arguments Z.of_nat : simpl never.
#[local] Arguments map2 : simpl never.
#[local] Arguments exec_list : simpl never.
#[local] Arguments numel : simpl never.
#[local] Arguments Nat.mul : simpl never.
#[local] Arguments int_of_q : simpl never.
#[local] Arguments inject_Z : simpl never.
#[local] Arguments Qred : simpl never.
#[local] Arguments Qdiv : simpl never.
#[local] Arguments Qminus : simpl never.
#[local] Arguments qbool : simpl never.
#[local] Arguments qmax : simpl never.

Ltac ext_rw := rewrite ?E_item, ?E_int, ?E_gt, ?E_any, ?E_shape, ?E_add_size, ?E_device, ?E_empty_dev, ?E_clamp_min,
  ?E_clamp_min_, ?E_bern, ?E_sub_tt, ?E_sub_ts, ?E_numel, ?E_T.
Ltac run1 := repeat (progress (cbn; change (Pos.to_nat 1) with 1%nat; cbn [nth]; ext_rw)).
Ltac norm_state := unfold set_var, emit; cbn [update vars events String.eqb Ascii.eqb Bool.eqb].
Ltac step tac := erewrite exec_list_cons_ok; [|run1; tac; run1; try reflexivity]; norm_state.
Ltac step_exc tac := erewrite exec_list_cons_exc; [|run1; tac; run1; try reflexivity]; norm_state.

(* ---- Z-level facts about the guards ---------------------------------------------------------------------- *)
Definition zinj (l : list Z) : list Q := map inject_Z l.
#[local] Arguments zinj : simpl never.

(* some given count exceeds its total *)
Definition over (totals givens : list Z) : bool := existsb (fun gt => (snd gt <? fst gt)%Z) (combine givens totals).

Lemma any_gt_z : forall givens totals,
  existsb qtrue (map2 (fun x y => qbool (q_gt x y)) (zinj givens) (zinj totals)) = over totals givens.
Proof.
  intros. unfold zinj, over. rewrite map2_maps, existsb_map'.
  apply existsb_ext'. intros [g t]. cbn [fst snd]. now rewrite qtrue_qbool, q_gt_z.
Qed.

Lemma exec_list_nil : forall ext st, exec_list ext [] st = Ok CNormal st.
Proof. reflexivity. Qed.

(* ---- the head: everything before the loop ------------------------------------------------------------------ *)
Section Run.
  Variables (orc : oracle) (junk : nat -> Q).
  Notation ext := (ext19 orc junk).
  (* the count tensors as handed over, what broadcasting makes of them, the maximum of total_count *)
  Variables (s1 s2 sh : list nat) (d1 d2 : list Q) (totals givens : list Z) (tmax : Z).
  Hypothesis Hmax : max_all (mkTens s1 d1) = Some (inject_Z tmax).
  Hypothesis Hbc : broadcast_pair (mkTens s1 d1) (mkTens s2 d2) = Some (mkTens sh (zinj totals), mkTens sh (zinj givens)).

  Definition st0 (out : option Z) : state :=
    mkState [("total_count", tv s1 d1); ("given_count", tv s2 d2); ("out_size", out_val out)] [].

  (* the effective out_size *)
  Definition oeff (out : option Z) : Z := match out with Some o => o | None => tmax end.

  Definition st_bc (out : option Z) : state :=
    mkState [("total_count", tv sh (zinj totals)); ("given_count", tv sh (zinj givens)); ("out_size", VInt (oeff out));
             ("total_count_max", VInt tmax); ("$t1", VTuple [tv sh (zinj totals); tv sh (zinj givens)])] [].

  (* statements 0-4: total_count_max, out_size, the broadcast *)
  Lemma head_bc : forall out r, exec_list ext (firstn 5 parts ++ r) (st0 out) = exec_list ext r (st_bc out).
  Proof.
    intros out r. unfold parts, st0. cbn [firstn app].
    step ltac:(rewrite (E_max _ _ _ _ _ _ Hmax)). rewrite int_of_q_z.
    assert (E2 : forall r, exec_list ext (SIf (ECmp Is (EName "out_size") (EConst VNone)) (SAssign [TName "out_size"] (EName "total_count_max")) SPass :: r)
      {| vars := [("total_count", tv s1 d1); ("given_count", tv s2 d2); ("out_size", out_val out); ("total_count_max", VInt tmax)]; events := [] |}
      = exec_list ext r {| vars := [("total_count", tv s1 d1); ("given_count", tv s2 d2); ("out_size", VInt (oeff out)); ("total_count_max", VInt tmax)]; events := [] |}).
    { intros r'. destruct out as [o|]; cbn [out_val oeff]; step idtac; reflexivity. }
    rewrite E2. clear E2.
    step ltac:(rewrite (E_bcast _ _ _ _ _ _ _ _ _ _ _ Hbc)).
    step idtac. step idtac. reflexivity.
  Qed.

  (* the state in which the loop runs: b, remainder_ell, remainder_t, and the loop's own variables (none before the
     first iteration) *)
  Definition st_loop (out : option Z) (D E R : list Q) (tail : list (string * val)) (evs : list event) : state :=
    mkState ([("total_count", tv sh (zinj totals)); ("given_count", tv sh (zinj givens)); ("out_size", VInt (oeff out));
              ("total_count_max", VInt tmax); ("$t1", VTuple [tv sh (zinj totals); tv sh (zinj givens)]);
              ("b", tv (Z.to_nat (oeff out) :: sh) D); ("remainder_ell", tv sh E); ("remainder_t", tv sh R)] ++ tail) evs.

  Lemma head_ok : forall out r, over totals givens = false -> (tmax <= oeff out)%Z -> (0 <= oeff out)%Z ->
    exec_list ext (firstn 10 parts ++ r) (st0 out) =
    exec_list ext r (st_loop out (map junk (seq 0 (numel (Z.to_nat (oeff out) :: sh)))) (zinj givens)
                       (map (qmax (inject_Z 1)) (zinj totals)) [] []).
  Proof.
    intros out r Hov Hout Hpos.
    change (firstn 10 parts ++ r) with (firstn 5 parts ++ (firstn 5 (skipn 5 parts) ++ r)). rewrite head_bc.
    unfold parts, st_bc. cbn [firstn skipn app].
    step ltac:(rewrite any_gt_z, Hov).
    step ltac:(rewrite Qcompare_z; destruct (Z.compare_spec (oeff out) tmax); try lia).
    step ltac:(rewrite (E_Size _ _ _ _ Hpos)).
    step idtac. step idtac. reflexivity.
  Qed.

  Lemma head_raise_over : forall out r, over totals givens = true ->
    exists st, exec_list ext (firstn 10 parts ++ r) (st0 out) = Exc "RuntimeError" st.
  Proof.
    intros out r Hov.
    change (firstn 10 parts ++ r) with (firstn 5 parts ++ (firstn 5 (skipn 5 parts) ++ r)). rewrite head_bc.
    unfold parts, st_bc. cbn [firstn skipn app]. eexists.
    step_exc ltac:(rewrite any_gt_z, Hov). reflexivity.
  Qed.

  Lemma head_raise_out : forall out r, over totals givens = false -> (oeff out < tmax)%Z ->
    exists st, exec_list ext (firstn 10 parts ++ r) (st0 out) = Exc "RuntimeError" st.
  Proof.
    intros out r Hov Hout.
    change (firstn 10 parts ++ r) with (firstn 5 parts ++ (firstn 5 (skipn 5 parts) ++ r)). rewrite head_bc.
    unfold parts, st_bc. cbn [firstn skipn app]. eexists.
    step ltac:(rewrite any_gt_z, Hov).
    step_exc ltac:(rewrite Qcompare_z; destruct (Z.compare_spec (oeff out) tmax); try lia). reflexivity.
  Qed.

  (* ---- one iteration of the loop ---------------------------------------------------------------------------- *)
  Definition full_tail (a b c : val) : list (string * val) := [("t", a); ("p", b); ("b_t", c)].
  Definition tail_ok (tail : list (string * val)) : Prop := tail = [] \/ (exists a b c, tail = full_tail a b c).

  Definition step_p (E R : list Q) : list Q := map2 (fun x y => Qred (x / y)) E R.
  Definition step_b (k : nat) (P : list Q) : list Q := map (fun i => qbool (orc k P i)) (seq 0 (List.length P)).
  Definition step_E (E B : list Q) : list Q := map2 (fun x y => Qred (x - y)) E B.
  Definition step_R (R : list Q) : list Q := map (qmax (inject_Z 1)) (map (fun v => Qred (v - inject_Z 1)) R).
  Definition step_D (k N : nat) (D B : list Q) : list Q := firstn (k * N) D ++ B ++ skipn (S k * N) D.

  Lemma body_step : forall out D E R tail evs k,
    tail_ok tail -> (0 <= k < Z.of_nat (Z.to_nat (oeff out)))%Z -> existsb (fun q => Qeq_bool q 0) R = false ->
    exec ext loop_body (set_var "t" (VInt k) (st_loop out D E R tail evs)) =
    Ok CNormal (st_loop out (step_D (Z.to_nat k) (numel sh) D (step_b (List.length evs) (step_p E R)))
                  (step_E E (step_b (List.length evs) (step_p E R))) (step_R R)
                  (full_tail (VInt k) (tv sh (step_p E R)) (tv sh (step_b (List.length evs) (step_p E R))))
                  (evs ++ [("torch.bernoulli", [tv sh (step_p E R)])])).
  Proof.
    intros out D E R tail evs k Htail Hk HR.
    rewrite exec_flatten. change (flatten_seq loop_body) with body_parts. unfold body_parts, st_loop.
    destruct Htail as [->|[a [b [c ->]]]]; unfold full_tail; cbn [app]; norm_state.
    - step ltac:(rewrite (E_truediv _ _ _ _ _ _ HR)).
      step idtac.
      step ltac:(rewrite (E_setrow _ _ _ _ _ _ _ _ Hk)).
      step idtac. step idtac. reflexivity.
    - step ltac:(rewrite (E_truediv _ _ _ _ _ _ HR)).
      step idtac.
      step ltac:(rewrite (E_setrow _ _ _ _ _ _ _ _ Hk)).
      step idtac. step idtac. reflexivity.
  Qed.
End Run.
