(* MiniTorch, unit C07 — the algebra of OpsC07.v needed by the C07 tie (no new definitions of meaning):
   tabulated tensors, the encoding round trip, and each operation on tabulated arguments of the
   ranks `_sequence_log_probs_tensor` meets on the (outer, time, inner) normal form. *)
From Coq Require Import List ZArith QArith Bool Arith Lia.
From Coq Require String.
From PV Require Import MiniPy.Syntax MiniTorch.Ops MiniTorch.Lemmas MiniTorch.OpsC07.
Import ListNotations.
Local Open Scope nat_scope.

(* ---- lists ------------------------------------------------------------------------------------ *)
Lemma zipw_map : forall {A X Y W} (f : X -> Y -> W) (g : A -> X) (h : A -> Y) l,
  zipw f (map g l) (map h l) = map (fun a => f (g a) (h a)) l.
Proof. induction l as [|a l IH]; cbn; [reflexivity|now rewrite IH]. Qed.

Lemma zipw_app : forall {X Y W} (f : X -> Y -> W) l1 m1 l2 m2, length l1 = length m1 ->
  zipw f (l1 ++ l2) (m1 ++ m2) = zipw f l1 m1 ++ zipw f l2 m2.
Proof.
  induction l1 as [|x l1 IH]; intros [|y m1] l2 m2 H; cbn in *; try discriminate; [reflexivity|].
  rewrite IH by lia. reflexivity.
Qed.

Lemma zipw_flat_map : forall {A X Y W} (f : X -> Y -> W) (F : A -> list X) (G : A -> list Y) l,
  (forall a, List.In a l -> length (F a) = length (G a)) ->
  zipw f (flat_map F l) (flat_map G l) = flat_map (fun a => zipw f (F a) (G a)) l.
Proof.
  induction l as [|a l IH]; intros H; cbn; [reflexivity|].
  rewrite zipw_app by (apply H; now left). rewrite IH by (intros; apply H; now right). reflexivity.
Qed.

Lemma length_row : forall {X} (f : nat -> X) I, length (map f (seq 0 I)) = I.
Proof. intros. now rewrite map_length, seq_length. Qed.

Lemma length_plane : forall {X} (f : nat -> nat -> X) N I,
  length (flat_map (fun t => map (f t) (seq 0 I)) (seq 0 N)) = N * I.
Proof.
  intros. rewrite (length_flat_map_const _ _ I) by (intros; apply length_row). now rewrite seq_length.
Qed.

Lemma flat_map_ext_seq : forall {X} (f g : nat -> list X) n,
  (forall i, i < n -> f i = g i) -> flat_map f (seq 0 n) = flat_map g (seq 0 n).
Proof. intros X f g n H. apply flat_map_ext_in. intros i Hi. apply in_seq in Hi. apply H. lia. Qed.

Lemma map_ext_seq : forall {X} (f g : nat -> X) n,
  (forall i, i < n -> f i = g i) -> map f (seq 0 n) = map g (seq 0 n).
Proof. intros X f g n H. apply map_ext_in. intros i Hi. apply in_seq in Hi. apply H. lia. Qed.

Lemma list_as_map_nth : forall {X} (l : list X) n d, length l = n -> l = map (fun i => nth i l d) (seq 0 n).
Proof.
  intros X l n d H. apply (nth_ext _ _ d d).
  - now rewrite length_row.
  - intros i Hi. rewrite nth_map_seq by lia. reflexivity.
Qed.

Lemma map_nth_zipw : forall {X Y W} (f : X -> Y -> W) l1 l2 n dx dy,
  length l1 = n -> length l2 = n ->
  map (fun t => f (nth t l1 dx) (nth t l2 dy)) (seq 0 n) = zipw f l1 l2.
Proof.
  intros X Y W f l1. induction l1 as [|x l1 IH]; intros [|y l2] n dx dy H1 H2; cbn in *; subst n; try discriminate;
    [reflexivity|].
  cbn [seq map nth zipw]. f_equal. rewrite <- seq_shift, map_map. apply IH; [reflexivity|lia].
Qed.

Lemma seq_plus : forall m s, seq s m = map (Nat.add s) (seq 0 m).
Proof.
  induction m as [|m IH]; intros s; [reflexivity|]. cbn [seq map]. f_equal; [lia|].
  rewrite <- (seq_shift m 0), map_map, (IH (S s)). apply map_ext. intros; lia.
Qed.

Lemma seq_mul : forall {X} (F : nat -> X) n m,
  map F (seq 0 (n * m)) = flat_map (fun i => map (fun j => F (i * m + j)) (seq 0 m)) (seq 0 n).
Proof.
  intros X F n m. induction n as [|n IH]; [reflexivity|].
  rewrite seq_S, flat_map_app. cbn [flat_map Nat.add]. rewrite app_nil_r, <- IH.
  replace (S n * m) with (n * m + m) by lia. rewrite seq_app, map_app. f_equal.
  cbn [Nat.add]. rewrite (seq_plus m (n * m)), map_map. reflexivity.
Qed.

(* ---- tabulated data ------------------------------------------------------------------------------ *)
Lemma tab2_ext : forall {X} O I (f g : nat -> nat -> X),
  (forall o i, o < O -> i < I -> f o i = g o i) -> tab2 O I f = tab2 O I g.
Proof. intros. unfold tab2. apply flat_map_ext_seq. intros o Ho. apply map_ext_seq. intros i Hi. now apply H. Qed.

Lemma tab3_ext : forall {X} O N I (f g : nat -> nat -> nat -> X),
  (forall o t i, o < O -> t < N -> i < I -> f o t i = g o t i) -> tab3 O N I f = tab3 O N I g.
Proof.
  intros. unfold tab3. apply flat_map_ext_seq. intros o Ho. apply flat_map_ext_seq. intros t Ht.
  apply map_ext_seq. intros i Hi. now apply H.
Qed.

Lemma map_tab2 : forall {X Y} (h : X -> Y) O I f, map h (tab2 O I f) = tab2 O I (fun o i => h (f o i)).
Proof. intros. unfold tab2. rewrite map_flat_map. apply flat_map_ext_seq. intros. now rewrite map_map. Qed.

Lemma map_tab3 : forall {X Y} (h : X -> Y) O N I f, map h (tab3 O N I f) = tab3 O N I (fun o t i => h (f o t i)).
Proof.
  intros. unfold tab3. rewrite map_flat_map. apply flat_map_ext_seq. intros. rewrite map_flat_map.
  apply flat_map_ext_seq. intros. now rewrite map_map.
Qed.

Lemma zipw_tab2 : forall {X Y W} (h : X -> Y -> W) O I f g,
  zipw h (tab2 O I f) (tab2 O I g) = tab2 O I (fun o i => h (f o i) (g o i)).
Proof.
  intros. unfold tab2. rewrite zipw_flat_map by (intros; now rewrite !length_row).
  apply flat_map_ext_seq. intros. apply zipw_map.
Qed.

Lemma zipw_tab3 : forall {X Y W} (h : X -> Y -> W) O N I f g,
  zipw h (tab3 O N I f) (tab3 O N I g) = tab3 O N I (fun o t i => h (f o t i) (g o t i)).
Proof.
  intros. unfold tab3. rewrite zipw_flat_map by (intros; now rewrite !length_plane).
  apply flat_map_ext_seq. intros. rewrite zipw_flat_map by (intros; now rewrite !length_row).
  apply flat_map_ext_seq. intros. apply zipw_map.
Qed.

Lemma nth_tab2 : forall {X} O I (f : nat -> nat -> X) o i d, o < O -> i < I -> nth (o * I + i) (tab2 O I f) d = f o i.
Proof.
  intros X O I f o i d Ho Hi. unfold tab2.
  rewrite (nth_flat_map_const _ _ I o i 0 d) by (try (intros; apply length_row); try (now rewrite seq_length); lia).
  rewrite seq_nth by assumption. now apply nth_map_seq.
Qed.

Lemma nth_tab3 : forall {X} O N I (f : nat -> nat -> nat -> X) o t i d, o < O -> t < N -> i < I ->
  nth ((o * N + t) * I + i) (tab3 O N I f) d = f o t i.
Proof.
  intros X O N I f o t i d Ho Ht Hi. unfold tab3.
  replace ((o * N + t) * I + i) with (o * (N * I) + (t * I + i)) by lia.
  rewrite (nth_flat_map_const _ _ (N * I) o (t * I + i) 0 d)
    by (try (intros; apply length_plane); try (now rewrite seq_length); nia).
  rewrite seq_nth by assumption. cbn [Nat.add]. now apply (nth_tab2 N I (f o)).
Qed.

Lemma length_tab3 : forall {X} O N I (f : nat -> nat -> nat -> X), length (tab3 O N I f) = O * (N * I).
Proof.
  intros. unfold tab3. rewrite (length_flat_map_const _ _ (N * I)) by (intros; apply length_plane).
  now rewrite seq_length.
Qed.

Lemma nth_tab4 : forall {X} O N I J (f : nat -> nat -> nat -> nat -> X) o t i j d, o < O -> t < N -> i < I -> j < J ->
  nth (((o * N + t) * I + i) * J + j) (tab4 O N I J f) d = f o t i j.
Proof.
  intros X O N I J f o t i j d Ho Ht Hi Hj. unfold tab4.
  replace (((o * N + t) * I + i) * J + j) with (o * (N * (I * J)) + ((t * I + i) * J + j)) by lia.
  rewrite (nth_flat_map_const _ _ (N * (I * J)) o ((t * I + i) * J + j) 0 d).
  - rewrite seq_nth by assumption. cbn [Nat.add]. now apply (nth_tab3 N I J (f o)).
  - intros a _. apply (length_tab3 N I J (f a)).
  - now rewrite seq_length.
  - assert (H1 : t * I + i < N * I) by nia. assert (H2 : (t * I + i) * J + j < N * I * J) by nia. lia.
Qed.

Lemma fibre_tab3 : forall {X} (d : X) O N I f o i, o < O -> i < I ->
  fibre d N I (tab3 O N I f) o i = map (fun t => f o t i) (seq 0 N).
Proof. intros. unfold fibre. apply map_ext_seq. intros t Ht. now apply nth_tab3. Qed.

Lemma forallb_tab3 : forall {X} (p : X -> bool) O N I f,
  (forall o t i, o < O -> t < N -> i < I -> p (f o t i) = true) -> forallb p (tab3 O N I f) = true.
Proof.
  intros X p O N I f H. apply forallb_forall. intros x Hx. unfold tab3 in Hx.
  apply in_flat_map in Hx. destruct Hx as [o [Ho Hx]]. apply in_flat_map in Hx. destruct Hx as [t [Ht Hx]].
  apply in_map_iff in Hx. destruct Hx as [i [<- Hi]]. apply in_seq in Ho, Ht, Hi. apply H; lia.
Qed.

(* the rows of a (A x T x B) tensor, one entry each: data indexed by the row number *)
Lemma rows_tab3 : forall {X} (G : nat -> nat -> X) A T B,
  tab2 (A * (T * B)) 1 G = tab3 A T B (fun a t b => G ((a * T + t) * B + b) 0).
Proof.
  intros X G A T B. unfold tab2, tab3. cbn [seq map].
  rewrite (flat_map_singleton (fun r => G r 0)), seq_mul. apply flat_map_ext_seq. intros a Ha.
  rewrite seq_mul. apply flat_map_ext_seq. intros t Ht. apply map_ext_seq. intros b Hb. f_equal. lia.
Qed.

Lemma nats_eqb_refl : forall l, nats_eqb l l = true.
Proof. induction l as [|x l IH]; [reflexivity|]. cbn. now rewrite Nat.eqb_refl, IH. Qed.

Lemma bdim_1_l : forall n, bdim 1 n = Some n.
Proof. intros n. unfold bdim. destruct (Nat.eqb_spec 1 n); [now subst|reflexivity]. Qed.

Lemma bdim_1_r : forall n, bdim n 1 = Some n.
Proof. intros n. unfold bdim. destruct (Nat.eqb_spec n 1); reflexivity. Qed.

Lemma bidx_same : forall n i, i < n -> bidx n i = i.
Proof. intros n i H. unfold bidx. destruct (Nat.eqb_spec n 1); lia. Qed.

(* ---- encoding round trip --------------------------------------------------------------------------- *)
Lemma dec_nats_enc : forall l, dec_nats (map (fun n => VInt (Z.of_nat n)) l) = Some l.
Proof.
  induction l as [|x l IH]; [reflexivity|]. cbn [map dec_nats].
  replace (0 <=? Z.of_nat x)%Z with true by (symmetry; apply Z.leb_le; lia).
  rewrite IH, Nat2Z.id. reflexivity.
Qed.

Lemma dec_list_map : forall {X} (f : val -> option X) (g : X -> val) l,
  (forall x, f (g x) = Some x) -> dec_list f (map g l) = Some l.
Proof. intros X f g l H. induction l as [|x l IH]; [reflexivity|]. cbn [map dec_list]. now rewrite H, IH. Qed.

Lemma dec_any_enc_b : forall t, dec_any (enc_b t) = Some (TB t).
Proof.
  intros [sh d]. unfold dec_any, enc_b, enc_shape. cbn [shp dat]. rewrite dec_nats_enc.
  change (String.eqb tag_bool tag_bool) with true. cbv iota.
  rewrite (dec_list_map val_bool VBool) by reflexivity. reflexivity.
Qed.

Lemma dec_any_enc_i : forall t, dec_any (enc_i t) = Some (TI t).
Proof.
  intros [sh d]. unfold dec_any, enc_i, enc_shape. cbn [shp dat]. rewrite dec_nats_enc.
  change (String.eqb tag_long tag_bool) with false. change (String.eqb tag_long tag_long) with true. cbv iota.
  rewrite (dec_list_map val_int VInt) by reflexivity. reflexivity.
Qed.

Lemma dec_any_enc_f : forall t, dec_any (enc_f t) = Some (TF t).
Proof.
  intros [sh d]. unfold dec_any, enc_f, enc_shape. cbn [shp dat]. rewrite dec_nats_enc.
  change (String.eqb tag_float tag_bool) with false. change (String.eqb tag_float tag_long) with false.
  change (String.eqb tag_float tag_float) with true. cbv iota.
  rewrite (dec_list_map val_xq xq_val) by (intros [q|]; reflexivity). reflexivity.
Qed.

(* ---- the operations on tabulated (A x T x B) arguments, along dimension 1 --------------------------- *)
Lemma cumsum_bool_3 : forall A T B m,
  cumsum_bool (mkTn [A; T; B] (tab3 A T B m)) 1 =
  Some (mkTn [A; T; B] (tab3 A T B (fun a t b => nth t (run_sum 0 (map b2z (map (fun s => m a s b) (seq 0 T)))) 0%Z))).
Proof.
  intros. unfold cumsum_bool. cbn [rank shp dat length]. change (wrap_dim 3 1) with (Some 1).
  cbv beta iota zeta. cbn [outer extent inner firstn skipn nth numel]. do 2 f_equal.
  apply tab3_ext. intros a t b Ha Ht Hb. now rewrite fibre_tab3.
Qed.

Lemma max_bool_3 : forall A T B m, T <> 0 ->
  max_bool (mkTn [A; T; B] (tab3 A T B m)) 1 =
  Some (Some (mkTn [A; B] (tab2 A B (fun a b => match first_true (map (fun t => m a t b) (seq 0 T)) with
                                                | Some _ => true | None => false end)),
              mkTn [A; B] (tab2 A B (fun a b => match first_true (map (fun t => m a t b) (seq 0 T)) with
                                                | Some j => Z.of_nat j | None => 0%Z end)))).
Proof.
  intros A T B m HT. unfold max_bool. cbn [rank shp dat length]. change (wrap_dim 3 1) with (Some 1).
  cbv beta iota zeta. cbn [outer extent inner drop_dim firstn skipn nth numel app].
  replace (T =? 0) with false by (symmetry; now apply Nat.eqb_neq).
  do 3 f_equal; f_equal; apply tab2_ext; intros a b Ha Hb; now rewrite fibre_tab3.
Qed.

Lemma max_bool_3_empty : forall A B d, max_bool (mkTn [A; 0; B] d) 1 = Some None.
Proof. reflexivity. Qed.

Lemma sum_dim_3 : forall A T B g,
  sum_dim (mkTn [A; T; B] (tab3 A T B g)) 1 =
  Some (mkTn [A; B] (tab2 A B (fun a b => fold_right xadd xzero (map (fun t => g a t b) (seq 0 T))))).
Proof.
  intros. unfold sum_dim. cbn [rank shp dat length]. change (wrap_dim 3 1) with (Some 1).
  cbv beta iota zeta. cbn [outer extent inner drop_dim firstn skipn nth numel app]. do 2 f_equal.
  apply tab2_ext. intros a b Ha Hb. now rewrite fibre_tab3.
Qed.

(* arange(T).unsqueeze(-1) >= lens.unsqueeze(1): (T x 1) against (A x 1 x B) *)
Lemma ge_t_col_3 : forall A T B (f : nat -> Z) (g : nat -> nat -> Z),
  ge_t (mkTn [T; 1] (map f (seq 0 T))) (mkTn [A; 1; B] (tab2 A B g)) =
  Some (mkTn [A; T; B] (tab3 A T B (fun a t b => Z.geb (f t) (g a b)))).
Proof.
  intros. unfold ge_t, broadcast. cbn [rank shp dat length Nat.max pad_shape Nat.sub repeat app].
  cbn [bc_shape bc_data]. rewrite !bdim_1_l, !bdim_1_r. do 2 f_equal.
  unfold tab3. apply flat_map_ext_seq. intros a Ha. apply flat_map_ext_seq. intros t Ht.
  rewrite <- (flat_map_singleton (fun b => Z.geb (f t) (g a b))). apply flat_map_ext_seq. intros b Hb.
  change (bidx 1 a) with 0. change (bidx 1 t) with 0. change (bidx 1 b) with 0.
  rewrite (bidx_same A a), (bidx_same T t), (bidx_same B b) by assumption.
  f_equal. f_equal.
  - replace ((0 * 1 + 0) * T + t) with t by lia. replace (t * 1 + 0) with t by lia. now apply nth_map_seq.
  - replace (((0 * A + a) * 1 + 0) * B + b) with (a * B + b) by lia. now apply nth_tab2.
Qed.

(* logits.gather(-1, hyp.unsqueeze(-1)) on (A x T x B x V) and (A x T x B x 1) *)
Lemma gather_last_4 : forall A T B V l k,
  (forall a t b, a < A -> t < T -> b < B -> (0 <= k a t b < Z.of_nat V)%Z) ->
  gather_last (mkTn [A; T; B; V] (tab4 A T B V l)) (mkTn [A; T; B; 1] (tab3 A T B k)) =
  Some (mkTn [A; T; B; 1] (tab3 A T B (fun a t b => l a t b (Z.to_nat (k a t b))))).
Proof.
  intros A T B V l k Hk. unfold gather_last. cbn [shp dat last removelast].
  rewrite nats_eqb_refl. cbn [andb].
  rewrite forallb_tab3 by (intros a t b Ha Ht Hb; specialize (Hk a t b Ha Ht Hb); lia).
  do 2 f_equal. cbn [numel].
  rewrite rows_tab3.
  apply tab3_ext. intros a t b Ha Ht Hb.
  replace (((a * T + t) * B + b) * 1 + 0) with ((a * T + t) * B + b) by lia.
  rewrite nth_tab3 by assumption. apply nth_tab4; try assumption.
  specialize (Hk a t b Ha Ht Hb). lia.
Qed.
