(* C06 — LookupLanguageModel (src/pydrobert/torch/_lm.py) and parse_arpa_lm (_parsing.py).

   Executable model of what the code does.  No proofs in this file.

   Numbers: log-probabilities / back-offs live on the grid k/8 (float32 sums of a handful
   of such values are exact), represented by [Fin k]; [NInf] is -inf, [NaN] is the nan the
   trie builder writes into the dummy nodes.  Node indices, offsets, ids are [Z].

   Sections:  1 values and buffers            5 _build_trie
              2 _lookup_calc_idx_log_probs    6 _infer_max_direct_descendants, load_state_dict
              3 calc_full_log_probs_chunked   7 parse_arpa_lm on pre-split lines
              4 forward (idx normalisation)   8 correspondence entry points *)
From Coq Require Import List ZArith Bool Arith.
Import ListNotations.
Local Open Scope Z_scope.

(* ------------------------------------------------------------------------------------ *)
(* 1. values and buffers                                                                  *)
(* ------------------------------------------------------------------------------------ *)

Inductive val := Fin (z : Z) | NInf | NaN.

Definition vadd (a b : val) : val :=
  match a, b with
  | NaN, _ | _, NaN => NaN
  | NInf, _ | _, NInf => NInf
  | Fin x, Fin y => Fin (x + y)
  end.

Definition vfinite (a : val) : bool := match a with Fin _ => true | _ => false end.

Definition val_eqb (a b : val) : bool :=
  match a, b with
  | Fin x, Fin y => x =? y
  | NInf, NInf => true
  | NaN, NaN => true
  | _, _ => false
  end.

Definition zlen {A} (l : list A) : Z := Z.of_nat (length l).

(* tensor[i] for a non-negative in-range i; the default stands for "never read" *)
Definition zget {A} (l : list A) (i : Z) (d : A) : A :=
  if i <? 0 then d else nth (Z.to_nat i) l d.

Definition zrange (n : Z) : list Z := map Z.of_nat (seq 0 (Z.to_nat n)).

Definition zsum (l : list Z) : Z := fold_right Z.add 0 l.

(* the four registered buffers *)
Record bufs := mkBufs
  { offsets : list Z; ids : list Z; logps : list val; logbs : list val }.

(* vocab_size, sos and the three inferred constants max_ngram (N), max_ngram_nodes (G),
   max_direct_descendants (S) *)
Record shape := mkShape
  { vocab : Z; sos : Z; order : nat; gnodes : Z; maxdesc : nat }.

Definition shiftb (V s : Z) : bool := negb ((0 <=? s) && (s <? V)).
Definition shiftz (V s : Z) : Z := if shiftb V s then 1 else 0.

(* U = V + shift + (1 % N) *)
Definition usize (sh : shape) : Z :=
  vocab sh + shiftz (vocab sh) (sos sh) + (if Nat.eqb (order sh) 1 then 0 else 1).
Definition osize (b : bufs) : Z := zlen (offsets b).
Definition psize (b : bufs) (sh : shape) : Z := osize b + gnodes sh.

(* assert (ids.numel(), logps.numel(), logbs.numel()) == (I, P, O) *)
Definition lens_ok (b : bufs) (sh : shape) : bool :=
  (zlen (ids b) =? psize b sh - usize sh) && (zlen (logps b) =? psize b sh)
  && (zlen (logbs b) =? osize b).

(* ------------------------------------------------------------------------------------ *)
(* 2. _lookup_calc_idx_log_probs                                                          *)
(* ------------------------------------------------------------------------------------ *)

(* ids_ = ids[pos_desc.clamp_max(P - 1) - U] *)
Definition idat (b : bufs) (sh : shape) (pos : Z) : Z :=
  zget (ids b) (Z.min pos (psize b sh - 1) - usize sh) 0.

(* pos_desc = desc_starts + srange, masked by desc_ends > pos_desc *)
Definition cands (b : bufs) (sh : shape) (d : Z) : list Z :=
  let st := zget (offsets b) d 0 + d in
  let en := zget (offsets b) (d + 1) 0 + d + 1 in
  filter (fun pos => pos <? en) (map (fun k => st + Z.of_nat k) (seq 0 (maxdesc sh))).

(* one path, one extension: (desc, found) -> (desc', found')
     extend_mask = (desc_ends > pos_desc) & (hist_n == ids_)
     found = extend_mask.any(1) & found
     desc = where(found, pos_desc.masked_fill(~extend_mask, 0).sum(1), desc) *)
Definition ext (b : bufs) (sh : shape) (st : Z * bool) (tok : Z) : Z * bool :=
  let m := filter (fun pos => idat b sh pos =? tok) (cands b sh (fst st)) in
  let f := negb (match m with [] => true | _ => false end) && snd st in
  ((if f then zsum m else fst st), f).

(* state of the two paths of one (batch element, candidate token) pair *)
Record pstate := mkSt
  { dn : Z * bool;   (* n path: desc[:M], found[:M] *)
    dp : Z * bool;   (* p path: desc[M:], found[M:] *)
    lastp : val;     (* last_logps *)
    lastb : val }.   (* last_backoffs *)

(* body of "for n in range(1, N)".  tn = hist[-n], tp = hist[-min(n + 1, N - 1)],
   is_last = (n == N - 1), hidx = the (padded) index of this batch element *)
Definition step (b : bufs) (sh : shape) (hidx n tn tp : Z) (is_last : bool) (s : pstate)
  : pstate :=
  let dn' := ext b sh (dn s) tn in
  let dp' := ext b sh (dp s) tp in
  let logps_desc := zget (logps b) (fst dn') NaN in
  let cur_backoffs :=
    if is_last then Fin 0
    else if snd dp' then zget (logbs b) (Z.min (fst dp') (osize b - 1)) NaN else Fin 0 in
  let clobber := vfinite logps_desc && snd dn' in
  let cur_logps :=
    if clobber then logps_desc else vadd (vadd (lastp s) cur_backoffs) (lastb s) in
  let last_backoffs := if clobber then cur_backoffs else Fin 0 in
  mkSt dn' dp' (if n <=? hidx then cur_logps else lastp s) last_backoffs.

(* the loop; r = the window newest-first, i.e. r = [hist[-1]; hist[-2]; ...; hist[-(N-1)]] *)
Fixpoint descend (b : bufs) (sh : shape) (hidx n : Z) (r : list Z) (s : pstate) : pstate :=
  match r with
  | [] => s
  | tn :: r' =>
      let tp := match r' with [] => tn | x :: _ => x end in
      let is_last := match r' with [] => true | _ => false end in
      descend b sh hidx (n + 1) r' (step b sh hidx n tn tp is_last s)
  end.

(* one batch element, one candidate v; w = its (sos-mapped) context window, oldest first,
   of length N - 1 >= 1 *)
Definition lookup1 (b : bufs) (sh : shape) (hidx : Z) (w : list Z) (v : Z) : val :=
  let r := rev w in
  let h1 := hd 0 r in
  lastp (descend b sh hidx 1 r
           (mkSt (v, true) (h1, true) (zget (logps b) v NaN) (zget (logbs b) h1 NaN))).

Inductive hindex := Scalar (i : Z) | Vec (l : list Z).

Fixpoint chunks {A} (n k : nat) (l : list A) : list (list A) :=
  match k with
  | O => []
  | S k' => firstn n l :: chunks n k' (skipn n l)
  end.

Definition column (rows : list (list Z)) (bi : nat) : list Z :=
  map (fun row => nth bi row 0) rows.

(* if shift: hist = hist.masked_fill(hist.eq(sos), V) *)
Definition mapwin (sh : shape) (w : list Z) : list Z :=
  if shiftb (vocab sh) (sos sh)
  then map (fun x => if x =? sos sh then vocab sh else x) w else w.

(* hist : rows (time-major), each of B entries; ix : hidx.  None = an exception.
   Result: B rows of V values. *)
Definition lookup_batch (b : bufs) (sh : shape) (hist : list (list Z)) (B : nat)
  (ix : hindex) : option (list (list val)) :=
  let N := Z.of_nat (order sh) in
  let hl := match ix with Scalar i => [i] | Vec l => l end in
  if negb (lens_ok b sh) then None else
  match hl with
  | [] => None                                  (* "idx cannot be empty" *)
  | h0 :: hr =>
    if Nat.eqb (order sh) 1
    then Some (repeat (firstn (Z.to_nat (vocab sh)) (logps b)) B)
    else
      let hmin0 := fold_right Z.min h0 hr in
      let rem := (N - 1) - hmin0 in
      let padded := 0 <? rem in
      let hist' := if padded
                   then repeat (repeat (sos sh) B) (Z.to_nat rem) ++ hist else hist in
      let hl' := if padded then map (fun h => h + rem) hl else hl in
      let hmin := if padded then hmin0 + rem else hmin0 in
      let wins : option (list (list Z)) :=
        match hl' with
        | [_] =>                                 (* hidx.numel() == 1: hist[-rem:hidx_min] *)
            let rows := skipn (Z.to_nat (hmin - (N - 1))) (firstn (Z.to_nat hmin) hist') in
            if Nat.eqb (length rows) (order sh - 1)
            then Some (map (column rows) (seq 0 B)) else None
        | _ =>
            if negb (Nat.eqb (length hl') B) then None else
            let sel := fun (bi : nat) (hb : Z) =>
              map (fun r => nth bi (nth r hist' []) 0)
                  (filter (fun r => (hb - N <? Z.of_nat r) && (Z.of_nat r <? hb))
                          (seq 0 (length hist'))) in
            let flat := concat (map (fun p => sel (fst p) (snd p)) (combine (seq 0 B) hl')) in
            if Nat.eqb (length flat) (B * (order sh - 1))
            then Some (chunks (order sh - 1) B flat) else None
        end in
      match wins with
      | None => None
      | Some ws =>
          let hexp := match hl' with [h] => repeat h B | _ => hl' end in   (* .expand(B) *)
          Some (map (fun p => map (lookup1 b sh (snd p) (mapwin sh (fst p)))
                                  (zrange (vocab sh)))
                    (combine ws hexp))
      end
  end.

(* ------------------------------------------------------------------------------------ *)
(* 3. calc_full_log_probs_chunked                                                         *)
(* ------------------------------------------------------------------------------------ *)

Fixpoint opt_all {A} (l : list (option A)) : option (list A) :=
  match l with
  | [] => Some []
  | None :: _ => None
  | Some x :: t => match opt_all t with None => None | Some r => Some (x :: r) end
  end.

(* hist.as_strided((Nm1, T_rest * B), (B, 1), B * (t - Nm1)) on the contiguous T x B data *)
Definition strided (flat : list Z) (B Nm1 Trest t : nat) : list (list Z) :=
  map (fun i => map (fun j => nth (B * (t - Nm1) + i * B + j) flat 0) (seq 0 (Trest * B)))
      (seq 0 Nm1).

(* for t in range(Nm1, T + 1, chunk_size) *)
Fixpoint chunk_loop (b : bufs) (sh : shape) (flat : list Z) (B T Nm1 chunk : nat)
  (fuel t : nat) : option (list (list (list val))) :=
  match fuel with
  | O => Some []
  | S fuel' =>
      if Nat.leb (T + 1) t then Some [] else
      let Trest := Nat.min chunk (T + 1 - t) in
      match lookup_batch b sh (strided flat B Nm1 Trest t) (Trest * B)
                         (Scalar (Z.of_nat Nm1)) with
      | None => None
      | Some lp =>
          match chunk_loop b sh flat B T Nm1 chunk fuel' (t + chunk) with
          | None => None
          | Some rest => Some (chunks B Trest lp ++ rest)     (* .view(T_rest, B, V) *)
          end
      end
  end.

Definition chunked (b : bufs) (sh : shape) (hist : list (list Z)) (B : nat) (chunk : nat)
  : option (list (list (list val))) :=
  let T := length hist in
  let Nm1 := Nat.min T (order sh - 1) in
  if Nat.ltb chunk 1 then None else
  match opt_all (map (fun i => lookup_batch b sh (firstn i hist) B (Scalar (Z.of_nat i)))
                     (seq 0 Nm1)) with
  | None => None
  | Some first =>
      match chunk_loop b sh (concat hist) B T Nm1 chunk (S T) Nm1 with
      | None => None
      | Some second => Some (first ++ second)
      end
  end.

(* ------------------------------------------------------------------------------------ *)
(* 4. SequentialLanguageModel.forward: idx normalisation, then dispatch                   *)
(* ------------------------------------------------------------------------------------ *)

Inductive output := Full (l : list (list (list val))) | AtIdx (l : list (list val)).

Definition norm_idx (T : Z) (B : nat) (ix : hindex) : option hindex :=
  let fix_ := fun i => (i + T + 1) mod (T + 1) in
  let bad := fun i => (i <? - T - 1) || (T <? i) in
  match ix with
  | Scalar i => if bad i then None else Some (Scalar (fix_ i))
  | Vec [] => None
  | Vec [i] => if bad i then None else Some (Scalar (fix_ i))
  | Vec l => if negb (Nat.eqb (length l) B) then None
             else if existsb bad l then None else Some (Vec (map fix_ l))
  end.

Definition forward (b : bufs) (sh : shape) (hist : list (list Z)) (B : nat)
  (ix : option hindex) : option output :=
  match ix with
  | None => option_map Full (chunked b sh hist B 1)
  | Some i =>
      match norm_idx (zlen hist) B i with
      | None => None
      | Some i' => option_map AtIdx (lookup_batch b sh hist B i')
      end
  end.

(* ------------------------------------------------------------------------------------ *)
(* 5. LookupLanguageModel._build_trie                                                     *)
(* ------------------------------------------------------------------------------------ *)

(* one prob_dict: keys are n-grams (earliest token first), values (logp, logb); the logb of
   a highest-order entry is a placeholder *)
Definition dict := list (list Z * (val * val)).

Fixpoint list_eqb (a b : list Z) : bool :=
  match a, b with
  | [], [] => true
  | x :: a', y :: b' => (x =? y) && list_eqb a' b'
  | _, _ => false
  end.

(* membership in the set "unigrams" = range(vocab_size) plus sos when out of vocabulary *)
Definition tok_okb (V s x : Z) : bool := ((0 <=? x) && (x <? V)) || (x =? s).

Definition dhas (d : dict) (k : list Z) : bool := existsb (fun e => list_eqb (fst e) k) d.

Fixpoint dget {A} (d : list (list Z * A)) (k : list Z) : option A :=
  match d with
  | [] => None
  | e :: d' => if list_eqb (fst e) k then Some (snd e) else dget d' k
  end.

(* prob_dicts[n - 1][suffix] = -inf, 0.0   for every suffix not yet an entry *)
Definition add_missing (lo : dict) (ks : list (list Z)) : dict :=
  fold_left (fun acc k => if dhas acc k then acc else acc ++ [(k, (NInf, Fin 0))]) ks lo.

(* "for n in range(max_ngram - 1, -1, -1)": hi is the (already completed) dict of order n+1,
   lower = the dicts of orders n, n-1, ..., 1 *)
Fixpoint close_down (hi : dict) (lower : list dict) : list dict :=
  match lower with
  | [] => [hi]
  | lo :: rest => hi :: close_down (add_missing lo (map (fun e => tl (fst e)) hi)) rest
  end.

Definition keys_okb (V s : Z) (n : nat) (d : dict) : bool :=
  forallb (fun e => Nat.eqb (length (fst e)) n && forallb (tok_okb V s) (fst e)) d.

Fixpoint upd {A} (l : list A) (i : nat) (x : A) : list A :=
  match l, i with
  | [], _ => []
  | _ :: t, O => x :: t
  | h :: t, S i' => h :: upd t i' x
  end.

(* Python/torch indexing: a negative index counts from the end *)
Definition pyidx {A} (l : list A) (i : Z) : Z := if i <? 0 then zlen l + i else i.
Definition pyget {A} (l : list A) (i : Z) (d : A) : A := zget l (pyidx l i) d.
Definition pyset {A} (l : list A) (i : Z) (x : A) : list A :=
  let j := pyidx l i in if j <? 0 then l else upd l (Z.to_nat j) x.

(* tuple comparison of reversed keys *)
Fixpoint lex_ltb (a b : list Z) : bool :=
  match a, b with
  | [], [] => false
  | [], _ :: _ => true
  | _ :: _, [] => false
  | x :: a', y :: b' => (x <? y) || ((x =? y) && lex_ltb a' b')
  end.

Fixpoint insort {A} (e : list Z * A) (l : list (list Z * A)) : list (list Z * A) :=
  match l with
  | [] => [e]
  | h :: t => if lex_ltb (fst e) (fst h) then e :: l else h :: insort e t
  end.

Definition sort_rev (d : dict) : dict :=
  fold_right insort [] (map (fun e => (rev (fst e), snd e)) d).

Record bstate := mkB
  { b_offs : list Z; b_ids : list Z; b_lps : list val; b_lbs : list val;
    b_children : list (list Z * Z); b_alloc : Z }.

(* while parent >= 0 and not offsets[parent]: offsets[parent] = allocated - parent; parent -= 1 *)
Fixpoint backfill (fuel : nat) (offs : list Z) (parent alloc : Z) : list Z :=
  match fuel with
  | O => offs
  | S f =>
      if (0 <=? parent) && (zget offs parent 0 =? 0)
      then backfill f (pyset offs parent (alloc - parent)) (parent - 1) alloc
      else offs
  end.

(* for i in range(start, -1, -1): if offsets[i - 1]: break; offsets[i - 1] = offsets[i] + 1 *)
Fixpoint trailfill (fuel : nat) (offs : list Z) (i : Z) : list Z :=
  match fuel with
  | O => offs
  | S f =>
      if i <? 0 then offs
      else if negb (pyget offs (i - 1) 0 =? 0) then offs
      else trailfill f (pyset offs (i - 1) (zget offs i 0 + 1)) (i - 1)
  end.

(* body of "while prob_list": e = (reversed key, value) *)
Definition alloc_one (U start last_start : Z) (is_last : bool) (parents : list (list Z * Z))
  (st : option bstate) (e : list Z * (val * val)) : option bstate :=
  match st with
  | None => None
  | Some st =>
      let a := b_alloc st in
      match dget parents (removelast (fst e)) with
      | None => None                                     (* KeyError *)
      | Some pr =>
          Some (mkB (backfill (S (length (b_offs st))) (b_offs st) (pr + last_start) a)
                    (pyset (b_ids st) (a - U) (last (fst e) 0))
                    (pyset (b_lps st) a (fst (snd e)))
                    (if is_last then b_lbs st else pyset (b_lbs st) a (snd (snd e)))
                    (b_children st ++ [(fst e, a - start)])
                    (a + 1))
      end
  end.

(* "while prob_dicts": one level per remaining dict *)
Fixpoint build_levels (U : Z) (ds : list dict) (parents : list (list Z * Z)) (last_start : Z)
  (st : bstate) : option bstate :=
  match ds with
  | [] => Some st
  | d :: rest =>
      let start := b_alloc st in
      let is_last := match rest with [] => true | _ => false end in
      let st1 := mkB (pyset (b_offs st) start (zlen d + 1)) (b_ids st)
                     (pyset (b_lps st) start NaN) (pyset (b_lbs st) start NaN) [] (start + 1) in
      match fold_left (alloc_one U start last_start is_last parents) (sort_rev d) (Some st1) with
      | None => None
      | Some st2 =>
          let offs := trailfill (S (Z.to_nat start)) (b_offs st2) start in
          build_levels U rest (b_children st2) start
            (mkB offs (b_ids st2) (b_lps st2) (b_lbs st2) [] (b_alloc st2))
      end
  end.

(* smallest of uint8 / int16 / int32 / int64 whose maximum is >= m: 0 / 1 / 2 / 3 *)
Definition int_width (m : Z) : nat :=
  if m <=? 255 then 0%nat else if m <=? 32767 then 1%nat else if m <=? 2147483647 then 2%nat
  else 3%nat.

Fixpoint zmax_list (l : list Z) (d : Z) : Z :=
  match l with [] => d | x :: t => Z.max x (zmax_list t d) end.

(* (offsets[lo+1 : hi] + 1 - offsets[lo : hi-1]).max(); None when the slice is empty or the
   two slices differ in length *)
Definition desc_span_max (offs : list Z) (lo hi : Z) : option Z :=
  if (hi <=? lo + 1) || (zlen offs <? hi) then None
  else let ks := map (fun k => lo + Z.of_nat k) (seq 0 (Z.to_nat (hi - 1 - lo))) in
       match map (fun k => zget offs (k + 1) 0 + 1 - zget offs k 0) ks with
       | [] => None
       | x :: t => Some (zmax_list t x)
       end.

Fixpoint maxdesc_loop (fuel : nat) (offs : list Z) (i S_ : Z) : option Z :=
  match fuel with
  | O => None
  | S f =>
      if zlen offs <=? i then Some S_
      else let j := i + zget offs i 0 in
           match desc_span_max offs i j with
           | None => None
           | Some m => maxdesc_loop f offs j (Z.max S_ m)
           end
  end.

(* _infer_max_direct_descendants *)
Definition infer_maxdesc (V s : Z) (offs : list Z) : option Z :=
  if zlen offs =? 0 then Some 0 else
  let U := V + shiftz V s + 1 in
  if negb ((0 <? U) && (U <=? zlen offs)) then None else
  match desc_span_max offs 0 U with
  | None => None
  | Some S0 =>
      if S0 <? 0 then None else
      match maxdesc_loop (S (length offs)) offs U S0 with
      | None => None
      | Some S_ => if S_ <? U then Some S_ else None
      end
  end.

Record built := mkBuilt
  { bt_bufs : bufs; bt_order : nat; bt_gnodes : Z; bt_maxdesc : Z;
    bt_offs_width : nat; bt_ids_width : nat }.

Definition build_trie (V s : Z) (dicts : list dict) : option built :=
  match rev dicts with
  | [] => None                                     (* "must contain at least unigrams" *)
  | top :: lower =>
      let N := length dicts in
      let sft := shiftz V s in
      if match top with [] => true | _ => false end then None else
      if negb (forallb (fun p => keys_okb V s (fst p) (snd p)) (combine (seq 1 N) dicts)) then None
      else
      let closed_rev := close_down top lower in
      (* the unigram dict is last in closed_rev; complete it *)
      let uni_toks := zrange V ++ (if shiftb V s then [s] else []) in
      let closed := match rev closed_rev with
                    | [] => []
                    | uni :: higher => add_missing uni (map (fun x => [x]) uni_toks) :: higher
                    end in
      let total := fold_right (fun d acc => zlen d + acc) 0 closed in
      let G := zlen (last closed []) in   (* len of the highest-order dict, after completion *)
      let ren := fun x => if shiftb V s && (x =? s) then V else x in
      let closed := map (fun d => map (fun e => (map ren (fst e), snd e)) d) closed in
      let one_mod_N := if Nat.eqb N 1 then 0 else 1 in
      let U := V + sft + one_mod_N in
      let O := total - G + (Z.of_nat N - 1) in
      let I := O + G - U in
      let P := O + G in
      match closed with
      | [] => None
      | uni :: higher =>
          let nuni := U - one_mod_N in
          match opt_all (map (fun x => dget uni [x]) (zrange nuni)) with
          | None => None
          | Some uvals =>
              let zeros := fun n => repeat 0 (Z.to_nat n) in
              let fzeros := fun n => repeat (Fin 0) (Z.to_nat n) in
              let lps0 := map fst uvals ++ fzeros (P - nuni) in
              let lbs0 := if Nat.eqb N 1 then fzeros O else map snd uvals ++ fzeros (O - nuni) in
              let parents := map (fun x => ([x], x)) (zrange (U - 1)) in
              match build_levels U higher parents 0
                      (mkB (zeros O) (zeros I) lps0 lbs0 [] nuni) with
              | None => None
              | Some st =>
                  let offs := b_offs st in
                  let bf := mkBufs offs (b_ids st) (b_lps st) (b_lbs st) in
                  match infer_maxdesc V s offs with
                  | None => None
                  | Some S_ =>
                      Some (mkBuilt bf N G S_
                              (match offs with [] => 0%nat | _ => int_width (zmax_list offs 0) end)
                              (int_width U))
                  end
              end
          end
      end
  end.

(* ------------------------------------------------------------------------------------ *)
(* 6. load_state_dict: the shape constants are inferred from the buffers                  *)
(* ------------------------------------------------------------------------------------ *)

(* while last_ptr < len(offsets): ... ; returns (last_ptr, max_ngram, max_ngram_nodes) *)
Fixpoint infer_loop (fuel : nat) (offs : list Z) (last_ptr : Z) (N : nat) (G : Z)
  : option (Z * nat * Z) :=
  match fuel with
  | O => None
  | S f =>
      if zlen offs <=? last_ptr then Some (last_ptr, N, G)
      else let o := zget offs last_ptr 0 in
           if o <=? 0 then None else infer_loop f offs (last_ptr + o) (S N) (o - 1)
  end.

(* Some (max_ngram, max_ngram_nodes, max_direct_descendants), None = RuntimeError *)
Definition infer_shape (V s : Z) (b : bufs) : option (nat * Z * Z) :=
  let sft := shiftz V s in
  let res :=
    if negb (zlen (ids b) =? 0) && negb (zlen (offsets b) =? 0) then
      let U := V + sft + 1 in
      if zlen (offsets b) <? U then None else
      match infer_loop (S (length (offsets b))) (offsets b) (U - 1) 1 (U - 1) with
      | None => None
      | Some (last_ptr, N, G) =>
          if last_ptr =? zlen (offsets b) + G then Some (N, G) else None
      end
    else
      if negb (zlen (offsets b) =? zlen (ids b)) then None
      else if negb (zlen (logps b) =? V + sft) then None
      else Some (1%nat, V + sft) in
  match res with
  | None => None
  | Some (N, G) =>
      match infer_maxdesc V s (offsets b) with
      | None => None
      | Some S_ => Some (N, G, S_)
      end
  end.

(* ------------------------------------------------------------------------------------ *)
(* 7. parse_arpa_lm on classified lines                                                   *)
(* ------------------------------------------------------------------------------------ *)

(* A whitespace-separated field of an entry line: its id under token2id (None = KeyError)
   and its value as a float scaled by 8 (None = ftype() raises ValueError). *)
Inductive field := Field (id : option Z) (fl : option Z).

(* line.strip() classified by the reader's own tests, in the order it applies them *)
Inductive aline :=
  | LBlank                                   (* "" *)
  | LData                                    (* \data\ *)
  | LEnd                                     (* \end\ *)
  | LCount (n c : nat)                       (* ngram <n>=<c> *)
  | LHeader (n : nat)                        (* \<n>-grams: *)
  | LEntry (logp : Z) (fs : list field)      (* <float> <rest>, rest.split() = fs *)
  | LOther.

Fixpoint skip_to_data (ls : list aline) : option (list aline) :=
  match ls with
  | [] => None
  | LData :: r => Some r
  | _ :: r => skip_to_data r
  end.

Definition set_count (counts : list nat) (n c : nat) : option (list nat) :=
  match n with
  | O => match counts with [] => None | _ => Some (upd counts (length counts - 1) c) end
  | S n' => let counts' := counts ++ repeat 0%nat (n - length counts) in Some (upd counts' n' c)
  end.

(* the "finding n-gram counts" loop: Some (counts, the line it stopped at, the rest) *)
Fixpoint read_counts (ls : list aline) (counts : list nat)
  : option (list nat * aline * list aline) :=
  match ls with
  | [] => None
  | LBlank :: r => read_counts r counts
  | LCount n c :: r =>
      match set_count counts n c with None => None | Some cs => read_counts r cs end
  | l :: r => Some (counts, l, r)
  end.

Fixpoint dset {A} (d : list (list Z * A)) (k : list Z) (x : A) : list (list Z * A) :=
  match d with
  | [] => [(k, x)]
  | e :: d' => if list_eqb (fst e) k then (k, x) :: d' else e :: dset d' k x
  end.

Definition field_id (f : field) : option Z := match f with Field i _ => i end.
Definition field_fl (f : field) : option Z := match f with Field _ x => x end.

(* the entries of one \n-grams: section; N = number of orders announced *)
Fixpoint read_entries (ls : list aline) (n N : nat) (d : dict)
  : option (dict * aline * list aline) :=
  match ls with
  | [] => None
  | LBlank :: r => read_entries r n N d
  | LEntry p fs :: r =>
      let with_bo :=
        if Nat.eqb (length fs) (n + 1) && Nat.ltb n N then
          match field_fl (last fs (Field None None)) with
          | Some f => Some (removelast fs, f)
          | None => None
          end
        else None in
      let '(fs', logb) := match with_bo with Some x => x | None => (fs, 0) end in
      if negb (Nat.eqb (length fs') n) then None else
      match opt_all (map field_id fs') with
      | None => None
      | Some key =>
          if Nat.eqb n 0 then None else
          read_entries r n N (dset d key (Fin p, if Nat.eqb n N then Fin 0 else Fin logb))
      end
  | l :: r => Some (d, l, r)
  end.

Fixpoint sections (fuel : nat) (line : aline) (rest : list aline) (N : nat) (ds : list dict)
  : option (list dict) :=
  match fuel with
  | O => None
  | S f =>
      match line with
      | LEnd => Some ds
      | LHeader n =>
          if Nat.ltb N n then None else
          match read_entries rest n N (nth (n - 1) ds []) with
          | None => None
          | Some (d, l, r) => sections f l r N (if Nat.eqb n 0 then ds else upd ds (n - 1) d)
          end
      | _ => None
      end
  end.

Definition parse_arpa (ls : list aline) : option (list dict) :=
  match skip_to_data ls with
  | None => None
  | Some r =>
      match read_counts r [] with
      | None => None
      | Some (counts, l, r') =>
          let N := length counts in
          match sections (S (length r')) l r' N (repeat [] N) with
          | None => None
          | Some ds =>
              if forallb (fun p => Nat.eqb (length (snd p)) (fst p)) (combine counts ds)
              then Some ds else None
          end
      end
  end.

(* ------------------------------------------------------------------------------------ *)
(* 8. correspondence entry points                                                         *)
(* ------------------------------------------------------------------------------------ *)

Fixpoint vals_eqb (a b : list val) : bool :=
  match a, b with
  | [], [] => true
  | x :: a', y :: b' => val_eqb x y && vals_eqb a' b'
  | _, _ => false
  end.

Fixpoint rows_eqb (a b : list (list val)) : bool :=
  match a, b with
  | [], [] => true
  | x :: a', y :: b' => vals_eqb x y && rows_eqb a' b'
  | _, _ => false
  end.

Fixpoint mats_eqb (a b : list (list (list val))) : bool :=
  match a, b with
  | [], [] => true
  | x :: a', y :: b' => rows_eqb x y && mats_eqb a' b'
  | _, _ => false
  end.

Definition out_eqb (a b : option output) : bool :=
  match a, b with
  | None, None => true
  | Some (Full x), Some (Full y) => mats_eqb x y
  | Some (AtIdx x), Some (AtIdx y) => rows_eqb x y
  | _, _ => false
  end.

Definition omats_eqb (a b : option (list (list (list val)))) : bool :=
  match a, b with
  | None, None => true
  | Some x, Some y => mats_eqb x y
  | _, _ => false
  end.

Definition bufs_eqb (a b : bufs) : bool :=
  list_eqb (offsets a) (offsets b) && list_eqb (ids a) (ids b)
  && vals_eqb (logps a) (logps b) && vals_eqb (logbs a) (logbs b).

(* impl = None when the constructor raised *)
Definition check_build (V s : Z) (dicts : list dict)
  (impl : option (bufs * (nat * Z * Z) * (nat * nat))) : bool :=
  match build_trie V s dicts, impl with
  | None, None => true
  | Some m, Some (b, (N, G, S_), (ow, iw)) =>
      bufs_eqb (bt_bufs m) b && Nat.eqb (bt_order m) N && (bt_gnodes m =? G)
      && (bt_maxdesc m =? S_) && Nat.eqb (bt_offs_width m) ow && Nat.eqb (bt_ids_width m) iw
  | _, _ => false
  end.

Definition check_infer (V s : Z) (b : bufs) (impl : option (nat * Z * Z)) : bool :=
  match infer_shape V s b, impl with
  | None, None => true
  | Some (N, G, S_), Some (N', G', S') => Nat.eqb N N' && (G =? G') && (S_ =? S')
  | _, _ => false
  end.

Definition dict_eqb (a b : dict) : bool :=
  Nat.eqb (length a) (length b) &&
  forallb (fun e => match dget b (fst e) with
                    | Some (p, q) => val_eqb p (fst (snd e)) && val_eqb q (snd (snd e))
                    | None => false
                    end) a.

Fixpoint dicts_eqb (a b : list dict) : bool :=
  match a, b with
  | [], [] => true
  | x :: a', y :: b' => dict_eqb x y && dicts_eqb a' b'
  | _, _ => false
  end.

Definition check_arpa (ls : list aline) (impl : option (list dict)) : bool :=
  match parse_arpa ls, impl with
  | None, None => true
  | Some a, Some b => dicts_eqb a b
  | _, _ => false
  end.
