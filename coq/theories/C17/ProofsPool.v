(* C17 - lemmas: the unordered pool.  Disjoint writes commute; sums are order independent. *)
From Coq Require Import List ZArith Bool Arith Lia Permutation Morphisms.
From PV Require Import C11.Model C17.Model C17.Spec C17.ProofsSel.
Import ListNotations.
Local Open Scope Z_scope.

(* ---------- reorder is a permutation ------------------------------------------------------------ *)

Lemma reorder_seq {I} (items : list I) : reorder (seq 0 (length items)) items = items.
Proof.
  unfold reorder. induction items as [|a items IH]; [reflexivity|].
  cbn [length seq flat_map nth_error app]. f_equal.
  rewrite <- seq_shift. rewrite flat_map_concat_map, map_map, <- flat_map_concat_map.
  cbn [nth_error]. exact IH.
Qed.

Lemma reorder_perm {I} order (items : list I) :
  Permutation order (seq 0 (length items)) -> Permutation (reorder order items) items.
Proof.
  intros H. rewrite <- (reorder_seq items) at 2. unfold reorder.
  apply Permutation_flat_map. exact H.
Qed.

(* every schedule of the pool processes a permutation of the items *)
Lemma pool_items_perm {I} workers order (items : list I) :
  Permutation order (seq 0 (length items)) -> Permutation (pool_items workers order items) items.
Proof. destruct workers; [reflexivity|apply reorder_perm]. Qed.

(* ---------- map_out ----------------------------------------------------------------------------- *)

Lemma map_out_done {A B} (f : A -> out B) l ys :
  map_out f l = Done ys <-> Forall2 (fun x y => f x = Done y) l ys.
Proof.
  revert ys. induction l as [|x t IH]; intros ys; cbn [map_out].
  - split; [intros H; inversion H; constructor|intros H; inversion H; reflexivity].
  - destruct (f x) as [y|e] eqn:E.
    + destruct (map_out f t) as [r|e] eqn:Et.
      * split.
        -- intros H. inversion H. subst. constructor; [exact E|apply IH; reflexivity].
        -- intros H. inversion H as [|? ? ? ? H1 H2]; subst. rewrite E in H1. inversion H1. subst.
           apply IH in H2. inversion H2. reflexivity.
      * split; [discriminate|]. intros H. inversion H as [|? ? ? ? H1 H2]; subst.
        apply IH in H2. discriminate.
    + split; [discriminate|]. intros H. inversion H as [|? ? ? ? H1 H2]; subst. congruence.
Qed.

Lemma map_out_fail_iff {A B} (f : A -> out B) l :
  (exists e, map_out f l = Fail e) <-> (exists x e, In x l /\ f x = Fail e).
Proof.
  induction l as [|x t IH]; cbn [map_out].
  - split; [intros [e H]; discriminate|intros [x [e [[] _]]]].
  - destruct (f x) as [y|e] eqn:E.
    + destruct (map_out f t) as [r|e] eqn:Et.
      * split; [intros [e H]; discriminate|].
        intros [x' [e [[->|Hi] Hf]]]; [congruence|].
        destruct (proj2 IH) as [e0 H]; [eauto|]. discriminate.
      * split; [|eauto]. intros _. destruct (proj1 IH) as [x' [e' [Hi Hf]]]; [eauto|].
        exists x', e'. split; [right; exact Hi|exact Hf].
    + split; [|eauto]. intros _. exists x, e. split; [left; reflexivity|exact E].
Qed.

Lemma map_out_perm {A B} (f : A -> out B) l l' ys : Permutation l l' ->
  map_out f l = Done ys -> exists ys', map_out f l' = Done ys' /\ Permutation ys ys'.
Proof.
  intros P. revert ys. induction P as [|x l l' P IH|x y l|l l' l'' P1 IH1 P2 IH2]; intros ys H.
  - exists ys. split; [exact H|reflexivity].
  - cbn [map_out] in *. destruct (f x) as [v|e]; [|discriminate].
    destruct (map_out f l) as [r|e]; [|discriminate]. inversion H. subst.
    destruct (IH r eq_refl) as [r' [Hr Pr]]. rewrite Hr. exists (v :: r'). split; [reflexivity|constructor; exact Pr].
  - cbn [map_out] in *. destruct (f y) as [vy|e]; [|discriminate]. destruct (f x) as [vx|e]; [|discriminate].
    destruct (map_out f l) as [r|e]; [|discriminate]. inversion H. subst.
    exists (vx :: vy :: r). split; [reflexivity|constructor].
  - destruct (IH1 ys H) as [ys1 [H1 Q1]]. destruct (IH2 ys1 H1) as [ys2 [H2 Q2]].
    exists ys2. split; [exact H2|eapply Permutation_trans; eassumption].
Qed.

Lemma map_out_total {A B} (g : A -> B) l : map_out (fun x => Done (g x)) l = Done (map g l).
Proof. induction l as [|x t IH]; cbn [map_out map]; [reflexivity|]. rewrite IH. reflexivity. Qed.

Lemma map_out_ext_in {A B} (f g : A -> out B) l : (forall x, In x l -> f x = g x) -> map_out f l = map_out g l.
Proof.
  induction l as [|x t IH]; intros H; cbn [map_out]; [reflexivity|].
  rewrite (H x (or_introl eq_refl)). rewrite IH by (intros y Hy; apply H; right; exact Hy). reflexivity.
Qed.

(* ---------- effects = writes ------------------------------------------------------------------------ *)

(* a do_work function that computes one (name, content) pair from its item and stores it *)
Definition eff {I A} (w : I -> out (str * A)) (x : I) (d : gdir A) : out (gdir A) :=
  match w x with Done nv => Done (dir_put (fst nv) (snd nv) d) | Fail e => Fail e end.

Definition puts {A} (ws : list (str * A)) (d : gdir A) : gdir A :=
  fold_left (fun d nv => dir_put (fst nv) (snd nv) d) ws d.

Lemma run_effects_puts {I A} (w : I -> out (str * A)) items : forall d,
  run_effects (eff w) items d =
  match map_out w items with Done ws => Done (puts ws d) | Fail e => Fail e end.
Proof.
  induction items as [|x t IH]; intros d; cbn [run_effects map_out]; [reflexivity|].
  unfold eff at 1. destruct (w x) as [nv|e]; [|reflexivity].
  rewrite IH. destruct (map_out w t); reflexivity.
Qed.

Lemma puts_get {A} (ws : list (str * A)) : forall d, NoDup (map fst ws) -> forall m,
  (forall v, In (m, v) ws -> dir_get (puts ws d) m = Some v) /\
  (~ In m (map fst ws) -> dir_get (puts ws d) m = dir_get d m).
Proof.
  induction ws as [|[n v] t IH]; intros d N m; cbn [puts fold_left map fst snd] in *.
  - split; [intros v []|reflexivity].
  - inversion N as [|? ? Hn Nt]; subst. fold (puts t (dir_put n v d)).
    destruct (IH (dir_put n v d) Nt m) as [H1 H2]. split.
    + intros v' [Hi|Hi].
      * inversion Hi. subst. rewrite H2 by exact Hn. apply dir_get_put_same.
      * apply H1. exact Hi.
    + intros Hm. rewrite H2 by (intros Hi; apply Hm; right; exact Hi). apply dir_get_put_other. intros ->. apply Hm. left. reflexivity.
Qed.

Lemma in_names_dec (m : str) (l : list str) : {In m l} + {~ In m l}.
Proof. apply in_dec. apply list_eq_dec. apply Z.eq_dec. Qed.

(* "disjoint writes commute" *)
Lemma puts_perm {A} (ws ws' : list (str * A)) d : Permutation ws ws' -> NoDup (map fst ws) ->
  dir_equiv (puts ws d) (puts ws' d).
Proof.
  intros P N m.
  assert (N' : NoDup (map fst ws')) by (eapply Permutation_NoDup; [apply Permutation_map; exact P|exact N]).
  destruct (in_names_dec m (map fst ws)) as [Hi|Hi].
  - apply in_map_iff in Hi. destruct Hi as [[n v] [E Hi]]. cbn [fst] in E. subst n.
    rewrite (proj1 (puts_get ws d N m) v Hi).
    rewrite (proj1 (puts_get ws' d N' m) v (Permutation_in _ P Hi)). reflexivity.
  - rewrite (proj2 (puts_get ws d N m) Hi).
    rewrite (proj2 (puts_get ws' d N' m)); [reflexivity|].
    intros H. apply Hi. eapply Permutation_in; [apply Permutation_sym, Permutation_map; exact P|exact H].
Qed.

(* every completion order of the pool: same files when the names written are distinct; a run that
   raises, raises under every order *)
Lemma effects_schedule_invariant {I A} (w : I -> out (str * A)) items items' d :
  Permutation items items' ->
  (forall ws, map_out w items = Done ws -> NoDup (map fst ws)) ->
  (forall d1, run_effects (eff w) items d = Done d1 ->
     exists d2, run_effects (eff w) items' d = Done d2 /\ dir_equiv d1 d2) /\
  (forall e, run_effects (eff w) items d = Fail e -> exists e', run_effects (eff w) items' d = Fail e').
Proof.
  intros P N. rewrite !run_effects_puts. split.
  - intros d1 H. destruct (map_out w items) as [ws|e] eqn:E; [|discriminate]. inversion H. subst.
    destruct (map_out_perm w items items' ws P E) as [ws' [E' Pw]]. rewrite E'.
    exists (puts ws' d). split; [reflexivity|]. apply puts_perm; [exact Pw|apply N; reflexivity].
  - intros e H. destruct (map_out w items) as [ws|e0] eqn:E; [discriminate|].
    assert (F : exists e, map_out w items' = Fail e).
    { apply map_out_fail_iff. destruct (proj1 (map_out_fail_iff w items)) as [x [ex [Hi Hf]]]; [eauto|].
      exists x, ex. split; [eapply Permutation_in; eassumption|exact Hf]. }
    destruct F as [e' F]. rewrite F. eauto.
Qed.

(* the result of a successful run, file by file *)
Lemma effects_result {I A} (w : I -> out (str * A)) items d d1 :
  run_effects (eff w) items d = Done d1 ->
  exists ws, map_out w items = Done ws /\ d1 = puts ws d.
Proof.
  rewrite run_effects_puts. destruct (map_out w items) as [ws|e]; [|discriminate].
  intros H. inversion H. exists ws. split; reflexivity.
Qed.

(* ---------- sums ---------------------------------------------------------------------------------- *)

Definition mom_sum (ms : list mom) : mom := fold_right mom_add (0, 0, 0) ms.

Lemma mom_add_comm a b : mom_add a b = mom_add b a.
Proof. destruct a as [[s ss] c], b as [[s' ss'] c']. cbn. f_equal; [f_equal|]; lia. Qed.

Lemma mom_add_assoc a b c : mom_add a (mom_add b c) = mom_add (mom_add a b) c.
Proof. destruct a as [[? ?] ?], b as [[? ?] ?], c as [[? ?] ?]. cbn. f_equal; [f_equal|]; lia. Qed.

Lemma mom_add_0_l a : mom_add (0, 0, 0) a = a.
Proof. destruct a as [[? ?] ?]. reflexivity. Qed.

Lemma fold_mom ms : forall acc, fold_left mom_add ms acc = mom_add acc (mom_sum ms).
Proof.
  induction ms as [|m t IH]; intros acc; cbn [fold_left mom_sum fold_right].
  - destruct acc as [[s ss] c]. cbn. f_equal; [f_equal|]; lia.
  - rewrite IH. fold (mom_sum t). rewrite mom_add_assoc. reflexivity.
Qed.

Lemma mom_sum_perm ms ms' : Permutation ms ms' -> mom_sum ms = mom_sum ms'.
Proof.
  induction 1 as [|x l l' P IH|x y l|l l' l'' P1 IH1 P2 IH2]; cbn [mom_sum fold_right] in *.
  - reflexivity.
  - fold (mom_sum l) (mom_sum l') in *. rewrite IH. reflexivity.
  - fold (mom_sum l). rewrite !mom_add_assoc. f_equal. apply mom_add_comm.
  - congruence.
Qed.

Lemma sumZ_app a b : sumZ (a ++ b) = sumZ a + sumZ b.
Proof. unfold sumZ. induction a as [|x a IH]; cbn [app fold_right]; [reflexivity|]. rewrite IH. lia. Qed.

Lemma mom_of_app a b : mom_of (a ++ b) = mom_add (mom_of a) (mom_of b).
Proof.
  unfold mom_of, mom_add. rewrite map_app, !sumZ_app, app_length. f_equal. lia.
Qed.

(* pooled: the sum of the per-file moments is the moments of all lengths together *)
Lemma mom_sum_concat (ls : list (list Z)) : mom_sum (map mom_of ls) = mom_of (concat ls).
Proof.
  induction ls as [|l t IH]; cbn [map mom_sum fold_right concat]; [reflexivity|].
  fold (mom_sum (map mom_of t)). rewrite IH, mom_of_app. reflexivity.
Qed.
