(* MiniPy — reasoning principles for the interpreter (no new definitions of semantics). *)
From Coq Require Import ZArith QArith List String Bool.
From PV Require Import MiniPy.Syntax MiniPy.Interp.
Import ListNotations.
Local Open Scope string_scope.

Section Lemmas.
  Variable ext : string -> list val -> list (string * val) -> state -> outcome val.

  (* the loop of [SFor] as a top-level function: induction over the iterated items *)
  Fixpoint for_loop (x : string) (body : stmt) (l : list val) (st : state) {struct l} : outcome ctl :=
    match l with
    | [] => Ok CNormal st
    | i :: r =>
        bind (exec ext body (set_var x i st)) (fun c st' =>
          match c with CNormal => for_loop x body r st' | CReturn _ => Ok c st' end)
    end.

  Lemma exec_for x e body st :
    exec ext (SFor x e body) st =
    bind (eval ext e st) (fun v st1 =>
      match iter_items v with
      | None => Stuck "for over a non-container"
      | Some items => for_loop x body items st1
      end).
  Proof.
    cbn [exec]. destruct (eval ext e st) as [v st1|n st1|w]; cbn [bind]; try reflexivity.
    destruct (iter_items v) as [items|]; [|reflexivity].
    revert st1. induction items as [|i r IH]; intros st1; [reflexivity|].
    cbn [for_loop]. destruct (exec ext body (set_var x i st1)) as [c st'|n st'|w]; cbn [bind]; try reflexivity.
    destruct c; [apply IH|reflexivity].
  Qed.

  (* the key computation of [ESorted] as a top-level function *)
  Fixpoint sorted_keys (x : string) (key : expr) (l : list val) (st : state) {struct l}
    : outcome (list (val * val)) :=
    match l with
    | [] => Ok [] st
    | i :: r =>
        bind (eval ext key (set_var x i st)) (fun k st' =>
          bind (sorted_keys x key r st') (fun ks st'' => Ok ((k, i) :: ks) st''))
    end.

  Lemma eval_sorted it x key st :
    eval ext (ESorted it x key) st =
    bind (eval ext it st) (fun v st1 =>
      match container_items v with
      | None => Stuck "sorted of a non-container"
      | Some items =>
          bind (sorted_keys x key items st1) (fun kis st2 =>
            match sort_keyed kis with
            | Some sorted => Ok (VList sorted) st2
            | None => ext "$sorted" [VList (map fst kis); VList (map snd kis)] [] st2
            end)
      end).
  Proof.
    cbn [eval]. destruct (eval ext it st) as [v st1|n st1|w]; cbn [bind]; try reflexivity.
    destruct (container_items v) as [items|]; [|reflexivity].
    f_equal. revert st1. induction items as [|i r IH]; intros st1; [reflexivity|].
    cbn [sorted_keys]. destruct (eval ext key (set_var x i st1)) as [k st'|n st'|w]; cbn [bind]; try reflexivity.
    rewrite IH. reflexivity.
  Qed.

  (* the loop of [SForC] (a `for` whose body may `continue`) as a top-level function *)
  Fixpoint forc_loop (x : string) (body : stmt) (l : list val) (st : state) {struct l} : outcome ctl :=
    match l with
    | [] => Ok CNormal st
    | i :: r =>
        match exec ext body (set_var x i st) with
        | Ok CNormal st' => forc_loop x body r st'
        | Ok (CReturn w) st' => Ok (CReturn w) st'
        | Exc n st' => if String.eqb n "$continue" then forc_loop x body r st' else Exc n st'
        | Stuck w => Stuck w
        end
    end.

  Lemma exec_forc x e body st :
    exec ext (SForC x e body) st =
    bind (eval ext e st) (fun v st1 =>
      match iter_items v with
      | None => Stuck "for over a non-container"
      | Some items => forc_loop x body items st1
      end).
  Proof.
    cbn [exec]. destruct (eval ext e st) as [v st1|n st1|w]; cbn [bind]; try reflexivity.
    destruct (iter_items v) as [items|]; [|reflexivity].
    revert st1. induction items as [|i r IH]; intros st1; [reflexivity|].
    cbn [forc_loop]. destruct (exec ext body (set_var x i st1)) as [c st'|n st'|w]; try reflexivity.
    - destruct c; [apply IH|reflexivity].
    - destruct (String.eqb n "$continue"); [apply IH|reflexivity].
  Qed.

  (* the handler selection of [STryExc] as a top-level function *)
  Fixpoint pick_handler (n : string) (st1 : state) (hs : list (list string * stmt)) {struct hs} : outcome ctl :=
    match hs with
    | [] => Exc n st1
    | (names, h) :: r =>
        if exc_matches n names then exec ext h (set_var "$exc" (VStr n) st1) else pick_handler n st1 r
    end.

  Lemma exec_tryexc body handlers st :
    exec ext (STryExc body handlers) st =
    match exec ext body st with
    | Exc n st1 => pick_handler n st1 handlers
    | o => o
    end.
  Proof.
    cbn [exec]. destruct (exec ext body st) as [c st1|n st1|w]; try reflexivity.
    induction handlers as [|[names h] r IH]; [reflexivity|].
    cbn [pick_handler]. destruct (exc_matches n names); [reflexivity|exact IH].
  Qed.

  (* the item loop of [EListComp] as a top-level function *)
  Fixpoint comp_loop (elt : expr) (x : string) (names : list string) (cond : expr) (l : list val) (st : state)
      {struct l} : outcome (list val) :=
    match l with
    | [] => Ok [] st
    | i :: r =>
        bind (bind_item x names i st) (fun _ st' =>
          bind (eval ext cond st') (fun c st2 =>
            if truthy c
            then bind (eval ext elt st2) (fun y st3 =>
                   bind (comp_loop elt x names cond r st3) (fun ys st4 => Ok (y :: ys) st4))
            else comp_loop elt x names cond r st2))
    end.

  Lemma eval_listcomp elt x names it cond st :
    eval ext (EListComp elt x names it cond) st =
    bind (eval ext it st) (fun v st1 =>
      match (if foreign v then None else container_items v) with
      | None => Stuck "comprehension over a non-container"
      | Some items =>
          bind (comp_loop elt x names cond items st1) (fun ys st2 =>
            Ok (VList ys) (restore_vars (x :: names) (vars st1) st2))
      end).
  Proof.
    cbn [eval]. destruct (eval ext it st) as [v st1|n st1|w]; cbn [bind]; try reflexivity.
    destruct (if foreign v then None else container_items v) as [items|]; [|reflexivity].
    f_equal. generalize st1. induction items as [|i r IH]; intros st0; [reflexivity|].
    cbn [comp_loop]. destruct (bind_item x names i st0) as [u st'|n st'|w]; cbn [bind]; try reflexivity.
    destruct (eval ext cond st') as [c st2|n st2|w]; cbn [bind]; try reflexivity.
    destruct (truthy c); [|apply IH].
    destruct (eval ext elt st2) as [y st3|n st3|w]; cbn [bind]; try reflexivity.
    rewrite IH. reflexivity.
  Qed.

  (* the item loop of [EGenCall] as a top-level function *)
  Fixpoint gen_loop (f : string) (elt : expr) (x : string) (names : list string) (cond : expr) (l : list val)
      (st : state) {struct l} : outcome val :=
    match l with
    | [] => gen_finish f st
    | i :: r =>
        bind (bind_item x names i st) (fun _ st' =>
          bind (eval ext cond st') (fun c st2 =>
            if truthy c
            then bind (eval ext elt st2) (fun y st3 =>
                   match gen_step f y with
                   | GStop w => Ok w st3
                   | GNext => gen_loop f elt x names cond r st3
                   | GStuck w => Stuck w
                   end)
            else gen_loop f elt x names cond r st2))
    end.

  Lemma eval_gencall f elt x names it cond st :
    eval ext (EGenCall f elt x names it cond) st =
    bind (eval ext it st) (fun v st1 =>
      match (if foreign v then None else container_items v) with
      | None => Stuck "generator over a non-container"
      | Some items =>
          bind (gen_loop f elt x names cond items st1) (fun w st2 =>
            Ok w (restore_vars (x :: names) (vars st1) st2))
      end).
  Proof.
    cbn [eval]. destruct (eval ext it st) as [v st1|n st1|w]; cbn [bind]; try reflexivity.
    destruct (if foreign v then None else container_items v) as [items|]; [|reflexivity].
    f_equal. generalize st1. induction items as [|i r IH]; intros st0; [reflexivity|].
    cbn [gen_loop]. destruct (bind_item x names i st0) as [u st'|n st'|w]; cbn [bind]; try reflexivity.
    destruct (eval ext cond st') as [c st2|n st2|w]; cbn [bind]; try reflexivity.
    destruct (truthy c); [|apply IH].
    destruct (eval ext elt st2) as [y st3|n st3|w]; cbn [bind]; try reflexivity.
    destruct (gen_step f y); try reflexivity. apply IH.
  Qed.

  Lemma exec_with e x body st :
    exec ext (SWith e x body) st =
    bind (eval ext e st) (fun m st1 =>
      bind (ext "$enter" [m] [] st1) (fun v st2 =>
        let cur st3 := match lookup x (vars st3) with Some w => w | None => VNone end in
        match exec ext body (set_var x v st2) with
        | Ok c st3 => bind (ext "$exit" [m; cur st3; VNone] [] st3) (fun _ st4 => Ok c st4)
        | Exc n st3 =>
            if internal_exc n then Stuck "control signal through a with block"
            else bind (ext "$exit" [m; cur st3; VStr n] [] st3) (fun r st4 =>
                   if truthy r then Ok CNormal st4 else Exc n st4)
        | Stuck w => Stuck w
        end)).
  Proof. reflexivity. Qed.

  Lemma exec_seq a b st :
    exec ext (SSeq a b) st =
    bind (exec ext a st) (fun c st1 => match c with CNormal => exec ext b st1 | CReturn v => Ok c st1 end).
  Proof. reflexivity. Qed.

  Lemma exec_if c t f st :
    exec ext (SIf c t f) st = bind (eval ext c st) (fun cv st1 => if truthy cv then exec ext t st1 else exec ext f st1).
  Proof. reflexivity. Qed.
End Lemmas.
