(* C19 tie - `binomial_coefficient`: the interpreted source (TieBinom) against Combinatorics.binomial_coefficient, and the
   compositions with the model theorems (Pascal's triangle; n! / (k! (n-k)!)). *)
From Coq Require Import ZArith QArith List Bool Arith Lia.
From PV Require Import MiniPy.Syntax MiniPy.Interp.
From PV Require Import MiniTorch.Ops MiniTorch.Value MiniTorch.Lemmas MiniTorch.OpsC19 MiniTorch.LemmasC19 Gen.C19Src.
From PV Require Import C19.Combinatorics C19.Spec C19.ProofsComb.
From PV Require Import C19.SrcRun C19.TieLib C19.TieBinom.
Import ListNotations.
Local Open Scope Z_scope.

Lemma combine_fst_snd : forall (lens cnts : list Z), length lens = length cnts ->
  map fst (combine lens cnts) = lens /\ map snd (combine lens cnts) = cnts.
Proof.
  induction lens as [|l lens IH]; intros [|c cnts] H; try discriminate; [split; reflexivity|].
  cbn in H. destruct (IH cnts ltac:(lia)) as [H1 H2]. cbn [combine map fst snd]. now rewrite H1, H2.
Qed.

Lemma zmax1_fold_right : forall r a, 0 <= a -> Forall (fun x => 0 <= x) r -> zmax1 a r = Z.max a (zmax_list r).
Proof.
  induction r as [|x r IH]; intros a Ha Hr.
  - unfold zmax1, zmax_list. cbn. lia.
  - inversion Hr; subst. rewrite zmax1_cons, IH by (assumption || lia). unfold zmax_list. cbn [fold_right]. lia.
Qed.

Lemma zmax_list_nonneg : forall l, 0 <= zmax_list l.
Proof. induction l as [|x l IH]; unfold zmax_list in *; cbn [fold_right]; lia. Qed.

Lemma existsb_neg_false_all : forall l, existsb (fun v => v <? 0) l = false -> Forall (fun x => 0 <= x) l.
Proof.
  intros l H. apply Forall_forall. intros x Hx. destruct (Z.lt_ge_cases x 0) as [Hl|Hl]; [|assumption].
  assert (E : existsb (fun v => v <? 0) l = true) by (apply existsb_exists; exists x; split; [assumption|now apply Z.ltb_lt]).
  congruence.
Qed.

(* the whole function: for every shape, every pair of integer tensors of that shape with at least one element, every
   content of uninitialised memory, the interpreted source raises RuntimeError / returns exactly what the model says *)
Theorem binom_tie : forall junk sh lens cnts, length lens = length cnts -> lens <> [] ->
  match binomial_coefficient lens cnts with
  | None => exists st, run_binom junk (ztens sh lens) (ztens sh cnts) = Exc runtime_error st
  | Some res => exists st, run_binom junk (ztens sh lens) (ztens sh cnts) = Ok (enc (ztens sh res)) st
  end.
Proof.
  intros junk sh lens cnts Hlen Hne. destruct (combine_fst_snd lens cnts Hlen) as [E1 E2].
  set (LC := combine lens cnts) in *. unfold binomial_coefficient. fold LC.
  destruct (existsb (fun v => v <? 0) lens || existsb (fun v => v <? 0) cnts) eqn:Hneg.
  - rewrite <- E1, <- E2. apply binom_run_raises. unfold negs. now rewrite E1, E2.
  - apply orb_false_elim in Hneg. destruct Hneg as [Hn1 Hn2].
    pose proof (existsb_neg_false_all _ Hn1) as Hl0. pose proof (existsb_neg_false_all _ Hn2) as Hc0.
    destruct lens as [|a r]; [congruence|]. destruct cnts as [|c rc]; [discriminate|].
    assert (Hmaxl : zmax_list (a :: r) = zmax1 a r).
    { inversion Hl0; subst. rewrite zmax1_fold_right by assumption. reflexivity. }
    assert (Hmaxc : zmax_list (c :: rc) = zmax1 c rc).
    { inversion Hc0; subst. rewrite zmax1_fold_right by assumption. reflexivity. }
    assert (Hm1 : max_all (mkTens sh (TieBinom.zinj (map fst LC))) = Some (inject_Z (zmax_list (a :: r)))).
    { rewrite E1, Hmaxl. apply max_all_z. }
    assert (Hm2 : max_all (mkTens sh (TieBinom.zinj (map snd LC))) = Some (inject_Z (zmax_list (c :: rc)))).
    { rewrite E2, Hmaxc. apply max_all_z. }
    assert (Hr1 : Forall (fun lc : Z * Z => (0 <= fst lc <= zmax_list (a :: r)) /\ 0 <= snd lc) LC).
    { apply Forall_forall. intros [l k] Hin. cbn [fst snd].
      pose proof (in_combine_l _ _ _ _ Hin) as H1. pose proof (in_combine_r _ _ _ _ Hin) as H2.
      rewrite Forall_forall in Hl0, Hc0. pose proof (Hl0 _ H1). pose proof (Hc0 _ H2).
      pose proof (zmax_list_ge _ _ H1). lia. }
    assert (Hr2 : Forall (fun lc : Z * Z => snd lc <= zmax_list (c :: rc)) LC).
    { apply Forall_forall. intros [l k] Hin. cbn [fst snd]. pose proof (in_combine_r _ _ _ _ Hin) as H2.
      apply (zmax_list_ge _ _ H2). }
    assert (Hng : negs LC = false) by (unfold negs; now rewrite E1, E2, Hn1, Hn2).
    pose proof (zmax_list_nonneg (a :: r)). pose proof (zmax_list_nonneg (c :: rc)).
    destruct (20 <? zmax_list (a :: r)) eqn:Hbr.
    + apply Z.ltb_lt in Hbr.
      destruct (binom_run_table junk sh LC _ Hm1 Hr1 _ Hm2 Hr2 Hng Hbr ltac:(lia)) as [st Hrun].
      exists st. rewrite E1, E2 in Hrun. unfold run_binom, ztens. unfold TieBinom.zinj in Hrun. rewrite Hrun.
      unfold ztens. rewrite map_map. reflexivity.
    + apply Z.ltb_ge in Hbr.
      destruct (binom_run_fact junk sh LC _ Hm1 Hr1 Hng ltac:(lia)) as [st Hrun].
      exists st. rewrite E1, E2 in Hrun. unfold run_binom, ztens. unfold TieBinom.zinj in Hrun. rewrite Hrun.
      unfold ztens. rewrite map_map. reflexivity.
Qed.

(* COMPOSED with ProofsComb.binomial_is_pascal: on non-negative input the interpreted source returns Pascal's triangle *)
Theorem binom_source_is_pascal : forall junk sh lens cnts, length lens = length cnts -> lens <> [] ->
  Forall (fun v => 0 <= v) lens -> Forall (fun v => 0 <= v) cnts ->
  exists st, run_binom junk (ztens sh lens) (ztens sh cnts)
             = Ok (enc (ztens sh (map (fun lc => choose (Z.to_nat (fst lc)) (Z.to_nat (snd lc))) (combine lens cnts)))) st.
Proof.
  intros junk sh lens cnts Hlen Hne Hl Hc. pose proof (binom_tie junk sh lens cnts Hlen Hne) as T.
  rewrite (binomial_is_pascal lens cnts Hl Hc) in T. exact T.
Qed.

(* COMPOSED further with choose_fact (c19_binomial_pascal_eq_factorial): every returned entry b[i] with
   count[i] <= length[i] satisfies  b[i] * count[i]! * (length[i] - count[i])! = length[i]!  *)
Theorem binom_source_is_factorial_quotient : forall junk sh lens cnts, length lens = length cnts -> lens <> [] ->
  Forall (fun v => 0 <= v) lens -> Forall (fun v => 0 <= v) cnts ->
  exists st res, run_binom junk (ztens sh lens) (ztens sh cnts) = Ok (enc (ztens sh res)) st /\ length res = length lens /\
    forall i, (i < length lens)%nat -> nth i cnts 0 <= nth i lens 0 ->
      nth i res 0 * zfact (Z.to_nat (nth i cnts 0)) * zfact (Z.to_nat (nth i lens 0) - Z.to_nat (nth i cnts 0))
      = zfact (Z.to_nat (nth i lens 0)).
Proof.
  intros junk sh lens cnts Hlen Hne Hl Hc.
  destruct (binom_source_is_pascal junk sh lens cnts Hlen Hne Hl Hc) as [st Hrun].
  set (F := fun lc : Z * Z => choose (Z.to_nat (fst lc)) (Z.to_nat (snd lc))) in *.
  exists st, (map F (combine lens cnts)).
  split; [exact Hrun|]. split; [rewrite map_length, combine_length; lia|].
  intros i Hi Hle.
  rewrite (nth_indep _ 0 (F (0, 0))) by (rewrite map_length, combine_length; lia).
  rewrite (map_nth F), combine_nth by assumption. unfold F. cbn [fst snd].
  apply choose_fact. rewrite Forall_forall in Hl, Hc.
  pose proof (Hc (nth i cnts 0) ltac:(apply nth_In; lia)). lia.
Qed.

Example binom_source_nonvacuous :
  agrees (run_binom junk_check (ztens [2%nat] [25; 5]) (ztens [2%nat] [2; 3])) (Some ([2%nat], [300; 10])) = true /\
  agrees (run_binom junk_check (ztens [3%nat] [5; 4; 0]) (ztens [3%nat] [2; 5; 0])) (Some ([3%nat], [10; 0; 1])) = true /\
  agrees (run_binom junk_check (ztens [1%nat] [5]) (ztens [1%nat] [-1])) None = true.
Proof. vm_compute. repeat split. Qed.
