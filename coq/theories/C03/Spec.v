(* C03 — declarative reading of "optimal-completion targets are exactly the
   distance-preserving next tokens" and of the hard OCD loss.  Independent of how the code
   works; built on the edit scripts of C01.Spec ([transforms], [cost], [min_edit_cost]).

   For a reference r and a hypothesis prefix p:
     [reachable r p v]      some completion p ++ s of the prefix is at edit distance v from r;
     [best_reachable r p m] m is the smallest edit distance any completion of p can still reach;
     [preserving r p t]     appending t does not raise it: p and p ++ [t] have the same best.
   A row of the output [target_row]: the preserving tokens, once each (in any order - the
   property does not fix one), followed only by padding.  [padding_row]: only padding.
   The boolean checkers judge an implementation output directly; they use the closed form
   "best = minimum of the table row" (Proofs: [best_reachable_row_min]) and nothing of Model.v. *)
From Coq Require Import List ZArith QArith Bool Arith.
From PV Require Import C01.Obs C01.Spec.
Import ListNotations.
Local Open Scope Z_scope.

Section Spec.
  Variables ci cd cs : Z.   (* insertion, deletion, substitution costs *)

  Definition reachable (r p : list Z) (v : Z) : Prop :=
    exists s, min_edit_cost ci cd cs r (p ++ s) v.

  Definition best_reachable (r p : list Z) (m : Z) : Prop :=
    reachable r p m /\ forall v, reachable r p v -> m <= v.

  Definition preserving (r p : list Z) (t : Z) : Prop :=
    exists m, best_reachable r p m /\ best_reachable r (p ++ [t]) m.

  Definition target_row (r p : list Z) (pad : Z) (row : list Z) : Prop :=
    exists L, row = L ++ repeat pad (length row - length L) /\ NoDup L /\
              forall t, In t L <-> preserving r p t.

  Definition padding_row (pad : Z) (row : list Z) : Prop := row = repeat pad (length row).

  (* ---- boolean judgement --------------------------------------------------------------- *)
  (* the minimum over reference prefixes of the distance to p (the table row of p) *)
  Definition row_min (r p : list Z) : Z :=
    fold_right Z.min (lev ci cd cs r p)
      (map (fun i => lev ci cd cs (firstn i r) p) (seq 0 (length r))).

  Definition preservingb (r p : list Z) (t : Z) : bool := row_min r (p ++ [t]) =? row_min r p.

  Definition memz (t : Z) (l : list Z) : bool := existsb (Z.eqb t) l.

  Fixpoint nodupb (l : list Z) : bool :=
    match l with [] => true | x :: t => negb (memz x t) && nodupb t end.

  (* only tokens of r can be preserving when the costs are positive (Proofs) *)
  Definition wanted (r p : list Z) : list Z := nodup Z.eq_dec (filter (preservingb r p) r).

  Definition target_row_okb (r p : list Z) (pad : Z) (row : list Z) : bool :=
    let want := wanted r p in
    let k := length want in
    (k <=? length row)%nat && nodupb (firstn k row)
    && forallb (fun t => memz t want) (firstn k row)
    && forallb (Z.eqb pad) (skipn k row).

  Definition padding_row_okb (pad : Z) (row : list Z) : bool := forallb (Z.eqb pad) row.
End Spec.

(* one row (prefix length k, one pair) of optimal_completion's output, judged from the raw
   columns.  The case the property excludes (empty hypothesis with exclude_last) is accepted
   whatever it holds. *)
Definition spec_row_okb (eos : option Z) (incl excl : bool) (ci cd cs pad : Z)
  (rcol hcol : list Z) (k : nat) (row : list Z) : bool :=
  let r := denote eos incl rcol in
  let h := denote eos incl hcol in
  if (k <? length h + (if excl then 0 else 1))%nat
  then target_row_okb ci cd cs r (firstn k h) pad row
  else if excl && Nat.eqb (length h) 0 then true
  else padding_row_okb pad row.

(* all rows of one pair: rows.(k) is the output row for prefix length k *)
Definition spec_pair_okb eos incl excl ci cd cs pad (rcol hcol : list Z) (rows : list (list Z)) : bool :=
  forallb (fun kr => spec_row_okb eos incl excl ci cd cs pad rcol hcol (fst kr) (snd kr))
          (combine (seq 0 (length rows)) rows).

(* ---- the loss ---------------------------------------------------------------------------- *)
(* mean of f over a finite set listed once each; zero for the empty set *)
Definition qmean (f : Z -> Q) (L : list Z) : Q :=
  match L with
  | [] => 0%Q
  | _ => (fold_right Qplus 0%Q (map f L) / inject_Z (Z.of_nat (length L)))%Q
  end.
