(* C18 — algebra of population statistics on lists of rationals. *)
From Coq Require Import List ZArith QArith Qabs Bool Arith Lia Permutation Setoid.
From PV Require Import C18.Model C18.Spec C18.QLemmas.
Import ListNotations.
Local Open Scope Q_scope.

Lemma qsq_eq : forall a, qsq a = a * a.
Proof. reflexivity. Qed.

Lemma Qsq_nonneg : forall a : Q, 0 <= a * a.
Proof. intros [n d]. unfold Qle, Qmult. cbn. rewrite Z.mul_1_r. apply Z.square_nonneg. Qed.

Lemma Qsum_nonneg : forall l, (forall a, In a l -> 0 <= a) -> 0 <= Qsum l.
Proof.
  induction l as [|a l IH]; intros H; qs; [apply Qle_refl|].
  replace 0 with (0 + 0) by reflexivity. apply Qplus_le_compat; [apply H; now left|apply IH; intros; apply H; now right].
Qed.

Lemma Qsum_eq_len_mean : forall l, (0 < length l)%nat -> Qsum l == qofnat (length l) * pop_mean l.
Proof. intros l H. unfold pop_mean. field. now apply qofnat_nz. Qed.

(* sum of squared deviations from an arbitrary centre *)
Lemma sq_dev_expand : forall l m,
  Qsum (map (fun v => (v - m) * (v - m)) l) ==
  Qsum (map qsq l) - 2 * m * Qsum l + qofnat (length l) * (m * m).
Proof.
  induction l as [|a l IH]; intros m; qs.
  - unfold qofnat. cbn. ring.
  - rewrite IH. unfold qofnat. rewrite Nat2Z.inj_succ. unfold Z.succ. rewrite inject_Z_plus.
    unfold qsq. ring.
Qed.

Lemma sq_dev_alt : forall l, (0 < length l)%nat ->
  sq_dev l == Qsum (map qsq l) - qofnat (length l) * (pop_mean l * pop_mean l).
Proof.
  intros l H. unfold sq_dev. rewrite sq_dev_expand. rewrite (Qsum_eq_len_mean l H) at 1. ring.
Qed.

Lemma sq_dev_nonneg : forall l, 0 <= sq_dev l.
Proof.
  intros l. unfold sq_dev. apply Qsum_nonneg. intros a Ha. apply in_map_iff in Ha.
  destruct Ha as [v [<- _]]. apply Qsq_nonneg.
Qed.

(* ------------------------------------------------------------------------------ *)
(* invariance under permutation                                                   *)
(* ------------------------------------------------------------------------------ *)
Lemma pop_mean_perm : forall a b, Permutation a b -> pop_mean a == pop_mean b.
Proof.
  intros a b H. unfold pop_mean. rewrite (Qsum_perm _ _ H), (Permutation_length H). reflexivity.
Qed.

Lemma sq_dev_centre_ext : forall l m m', m == m' ->
  Qsum (map (fun v => (v - m) * (v - m)) l) == Qsum (map (fun v => (v - m') * (v - m')) l).
Proof. intros l m m' E. apply Qsum_map_ext. intros v. rewrite E. reflexivity. Qed.

Lemma sq_dev_perm : forall a b, Permutation a b -> sq_dev a == sq_dev b.
Proof.
  intros a b H. unfold sq_dev.
  rewrite (sq_dev_centre_ext a _ _ (pop_mean_perm _ _ H)).
  apply Qsum_perm. now apply Permutation_map.
Qed.

Lemma pop_var_perm : forall bessel a b, Permutation a b -> pop_var bessel a == pop_var bessel b.
Proof.
  intros bessel a b H. unfold pop_var. rewrite (sq_dev_perm _ _ H), (Permutation_length H). reflexivity.
Qed.

(* ------------------------------------------------------------------------------ *)
(* from count / sum / sum of squares to mean and variance                          *)
(* ------------------------------------------------------------------------------ *)
Lemma var_from_sums : forall l, (0 < length l)%nat ->
  Qsum (map qsq l) / qofnat (length l) - qsq (Qsum l / qofnat (length l)) == pop_var false l.
Proof.
  intros l H. unfold pop_var. rewrite (sq_dev_alt l H). unfold pop_mean, qsq. field.
  now apply qofnat_nz.
Qed.

Lemma pop_var_nonneg_biased : forall l, (0 < length l)%nat -> 0 <= pop_var false l.
Proof.
  intros l H. unfold pop_var. apply Qle_shift_div_l; [now apply qofnat_pos|].
  rewrite Qmult_0_l. apply sq_dev_nonneg.
Qed.

Lemma qofnat_minus1_nz : forall n, (2 <= n)%nat -> ~ qofnat n - 1 == 0.
Proof.
  intros n H E.
  assert (G : qofnat n == qofnat (n - 1) + 1).
  { change 1 with (qofnat 1). rewrite <- qofnat_plus. now replace (n - 1 + 1)%nat with n by lia. }
  rewrite G in E. apply (qofnat_nz (n - 1)); [lia|]. rewrite <- E. ring.
Qed.

Lemma bessel_scale : forall l, (2 <= length l)%nat ->
  pop_var false l * (qofnat (length l) / (qofnat (length l) - 1)) == pop_var true l.
Proof.
  intros l H. unfold pop_var. field. split; [apply qofnat_minus1_nz; lia|apply qofnat_nz; lia].
Qed.

(* ------------------------------------------------------------------------------ *)
(* shifting and scaling                                                           *)
(* ------------------------------------------------------------------------------ *)
Lemma pop_mean_affine : forall l c s, (0 < length l)%nat -> ~ s == 0 ->
  pop_mean (map (fun v => (v - c) / s) l) == (pop_mean l - c) / s.
Proof.
  intros l c s H Hs. unfold pop_mean. rewrite map_length.
  rewrite (Qsum_map_ext _ (fun v => (v + (- c)) * (/ s))) by (intros; field; assumption).
  rewrite Qsum_map_scal.
  rewrite (Qsum_map_plus (fun v => v) (fun _ => - c)), Qsum_map_const, map_id.
  field. split; try assumption; now apply qofnat_nz.
Qed.

Lemma sq_dev_affine : forall l c s, (0 < length l)%nat -> ~ s == 0 ->
  sq_dev (map (fun v => (v - c) / s) l) == sq_dev l / (s * s).
Proof.
  intros l c s H Hs. unfold sq_dev. rewrite map_map.
  rewrite (Qsum_map_ext _ (fun v => ((v - pop_mean l) * (v - pop_mean l)) * (/ (s * s)))).
  - rewrite Qsum_map_scal. reflexivity.
  - intros v. rewrite (pop_mean_affine l c s H Hs). field. assumption.
Qed.

Lemma pop_var_affine : forall b l c s, (0 < length l)%nat -> ~ s == 0 ->
  pop_var b (map (fun v => (v - c) / s) l) == pop_var b l / (s * s).
Proof.
  intros b l c s H Hs. unfold pop_var. rewrite (sq_dev_affine l c s H Hs), map_length.
  unfold Qdiv. ring.
Qed.

(* "normalising with them gives each coefficient zero mean and unit variance" *)
Lemma normalise_list : forall b l m s,
  (0 < length l)%nat -> m == pop_mean l -> s * s == pop_var b l -> ~ s == 0 ->
  pop_mean (map (fun v => (v - m) / s) l) == 0 /\ pop_var b (map (fun v => (v - m) / s) l) == 1.
Proof.
  intros b l m s H Hm Hv Hs. split.
  - rewrite (pop_mean_affine l m s H Hs), Hm. field. assumption.
  - rewrite (pop_var_affine b l m s H Hs), <- Hv. field. assumption.
Qed.

(* statistics respect pointwise Qeq of the data *)
Lemma pop_mean_map_ext : forall {A} (f g : A -> Q) l, (forall a, f a == g a) ->
  pop_mean (map f l) == pop_mean (map g l).
Proof. intros A f g l H. unfold pop_mean. rewrite !map_length, (Qsum_map_ext f g l H). reflexivity. Qed.

Lemma pop_var_map_ext : forall {A} b (f g : A -> Q) l, (forall a, f a == g a) ->
  pop_var b (map f l) == pop_var b (map g l).
Proof.
  intros A b f g l H. unfold pop_var, sq_dev. rewrite !map_length, !map_map.
  rewrite (Qsum_map_ext _ (fun x => (g x - pop_mean (map g l)) * (g x - pop_mean (map g l)))).
  - reflexivity.
  - intros a. rewrite (H a), (pop_mean_map_ext f g l H). reflexivity.
Qed.

Lemma pop_var_shift : forall b l c, (0 < length l)%nat ->
  pop_var b (map (fun v => v - c) l) == pop_var b l.
Proof.
  intros b l c H.
  rewrite (pop_var_map_ext b _ (fun v => (v - c) / 1)) by (intros; field).
  rewrite (pop_var_affine b l c 1 H) by discriminate. field.
Qed.
