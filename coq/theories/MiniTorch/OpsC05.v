(* MiniTorch, unit C05 — the meaning given to the torch operations that occur in the translated text of
   `ctc_prefix_search_advance` (src/pydrobert/torch/_decoding.py).  DEFINITIONS ONLY; the algebra is in
   LemmasC05.v, the encoding of tensors as MiniPy values and the dispatch from call names in C05/SrcRun.v.

   Tensors are (shape, row-major flat data) of ANY number of dimensions over three element types:
       mass  (floating point: PV.C05.Model.mass = an exact rational in lowest terms [Fin q] or -inf [NegInf])
       Z     (torch.long; unbounded, no wrap-around)
       bool  (torch.bool)
   +inf and NaN are NOT representable; IEEE rounding, devices, strides/contiguity and aliasing of views are not
   modelled (DESIGN.md section 3): an operation is a function from values to a value.  An operation returns
   [None] outside the domain stated with it; the unit's [ext] turns [None] into [Stuck], so a tie lemma about a
   run that leaves the domain cannot be proved (fail-closed).

   Uniform style: the result of an operation is TABULATED over the multi-indices of its shape,
       out[ix] = ... x[ix'] ...      written   tab sh (fun ix => ... get d x ix' ...)
   ([get d x ix] = the element of x at multi-index ix, [d] outside the buffer - never reached inside the stated
   domains).  Each definition quotes the sentence of the torch documentation (2.x) it models.  This file is
   TRUSTED by the C05 tie; it is exercised on every run by the harness-side [SrcRun.src_advance_check] (torch vs
   the interpreted source on the run's step cases).

   torch.topk: torch documents "the indices of tied elements are not guaranteed to be stable", so the answer is
   supplied by an ORACLE [sel] (row number, row, k) -> indices (as in the C04 tie); the C05 tie instantiates it
   with the model's stable selection (PV.C05.Model.topk_stable), the harness with the answer it observed. *)
From Coq Require Import List ZArith QArith Qcanon Bool Arith.
From PV Require Import MiniTorch.Ops.
From PV Require C05.Model.
Import ListNotations.
Local Open Scope nat_scope.

Module M := PV.C05.Model.

Record tn (X : Type) := mkTn { shp : list nat; dat : list X }.
Arguments mkTn {X}. Arguments shp {X}. Arguments dat {X}.

Definition rank {X} (x : tn X) : nat := List.length (shp x).

(* ---- multi-indices, row-major ---------------------------------------------------------------------- *)
Fixpoint numel (sh : list nat) : nat :=
  match sh with [] => 1 | n :: r => n * numel r end.

(* all multi-indices of a shape in row-major order (the last index varies fastest) *)
Fixpoint indices (sh : list nat) : list (list nat) :=
  match sh with
  | [] => [[]]
  | n :: r => flat_map (fun i => map (cons i) (indices r)) (seq 0 n)
  end.

(* row-major offset of a multi-index *)
Fixpoint ravel (sh ix : list nat) : nat :=
  match sh, ix with
  | _ :: r, i :: ix' => i * numel r + ravel r ix'
  | _, _ => 0
  end.

(* ix is a multi-index of the shape *)
Fixpoint inb (sh ix : list nat) : bool :=
  match sh, ix with
  | [], [] => true
  | n :: r, i :: ix' => (i <? n) && inb r ix'
  | _, _ => false
  end.

Definition tab {X} (sh : list nat) (f : list nat -> X) : tn X := mkTn sh (map f (indices sh)).
Definition get {X} (d : X) (x : tn X) (ix : list nat) : X := nth (ravel (shp x) ix) (dat x) d.

Definition at_ (ix : list nat) (k : nat) : nat := nth k ix 0.

Fixpoint set_at {A} (l : list A) (k : nat) (x : A) : list A :=
  match l, k with
  | [], _ => []
  | _ :: t, O => x :: t
  | h :: t, S k' => h :: set_at t k' x
  end.
Definition remove_at {A} (k : nat) (l : list A) : list A := firstn k l ++ skipn (S k) l.
Definition insert_at {A} (k : nat) (x : A) (l : list A) : list A := firstn k l ++ x :: skipn k l.

Fixpoint zipw {A B C} (f : A -> B -> C) (l : list A) (m : list B) : list C :=
  match l, m with a :: l', b :: m' => f a b :: zipw f l' m' | _, _ => [] end.

Fixpoint nats_eqb (a b : list nat) : bool :=
  match a, b with
  | [], [] => true
  | x :: a', y :: b' => (x =? y) && nats_eqb a' b'
  | _, _ => false
  end.

Definition tmap {X Y} (f : X -> Y) (x : tn X) : tn Y := mkTn (shp x) (map f (dat x)).

Definition nat_sizes (l : list Z) : option (list nat) :=
  if forallb (fun z => (0 <=? z)%Z) l then Some (map Z.to_nat l) else None.

Definition zin (n : nat) (z : Z) : bool := ((0 <=? z) && (z <? Z.of_nat n))%Z.

(* ---- shapes ------------------------------------------------------------------------------------------ *)
(* Tensor.dim(): "Returns the number of dimensions of self tensor." = [rank] *)

(* Tensor.size(dim): "If dim is specified, returns an int holding the size of that dimension."
   (dim in [-D, D); None: out of range - torch raises IndexError) *)
Definition size {X} (x : tn X) (d : Z) : option nat :=
  option_map (fun k => nth k (shp x) 0) (wrap_dim (rank x) d).

(* Tensor.unsqueeze(dim): "Returns a new tensor with a dimension of size one inserted at the specified
   position. ... A dim value within the range [-input.dim() - 1, input.dim() + 1) can be used."
   out[ix] = x[ix without its k-th component] *)
Definition unsqueeze {X} (d : X) (x : tn X) (dm : Z) : option (tn X) :=
  match wrap_dim (S (rank x)) dm with
  | Some k => Some (tab (insert_at k 1 (shp x)) (fun ix => get d x (remove_at k ix)))
  | None => None
  end.

(* Tensor.expand( *sizes): "Returns a new view of the self tensor with singleton dimensions expanded to a larger
   size."  Modelled: as many sizes as the tensor has dimensions, each non-negative and either equal to the
   tensor's size or the tensor's size being 1 (-1 "not changing the size" and new leading dimensions: None).
   out[ix] = x[ix with 0 at the expanded singleton dimensions]   (Ops.bidx n i = 0 if n = 1, else i) *)
Definition expand {X} (d : X) (x : tn X) (sizes : list Z) : option (tn X) :=
  match nat_sizes sizes with
  | Some sh' =>
      if (List.length sh' =? rank x)
         && forallb (fun p => (fst p =? snd p) || (fst p =? 1)) (combine (shp x) sh')
      then Some (tab sh' (fun ix => get d x (zipw bidx (shp x) ix)))
      else None
  | None => None
  end.

(* Tensor.transpose(dim0, dim1): "Returns a tensor that is a transposed version of input.  The given dimensions
   dim0 and dim1 are swapped."   out[ix] = x[ix with components a and b swapped] *)
Definition swap_at {A} (d : A) (l : list A) (a b : nat) : list A :=
  set_at (set_at l a (nth b l d)) b (nth a l d).

Definition transpose {X} (d : X) (x : tn X) (d0 d1 : Z) : option (tn X) :=
  match wrap_dim (rank x) d0, wrap_dim (rank x) d1 with
  | Some a, Some b => Some (tab (swap_at 0 (shp x) a b) (fun ix => get d x (swap_at 0 ix a b)))
  | _, _ => None
  end.

(* Tensor.view( *shape): "Returns a new tensor with the same data as the self tensor but of a different shape."
   Modelled ONLY for the use the function makes of it: a 3-D tensor (a, b, c) viewed as (a, b * c) - the two
   trailing dimensions merged:  out[i, r] = x[i, r / c, r mod c].  (-1, other ranks: None; the contiguity
   condition of view is not modelled: every tensor is row-major.) *)
Definition view_merge {X} (d : X) (x : tn X) (sizes : list Z) : option (tn X) :=
  match shp x, nat_sizes sizes with
  | [a; b; c], Some [a'; m] =>
      if (a =? a') && (m =? b * c)
      then Some (tab [a; m] (fun ix => get d x [at_ ix 0; at_ ix 1 / c; at_ ix 1 mod c]))
      else None
  | _, _ => None
  end.

(* torch.cat(tensors, dim): "Concatenates the given sequence of tensors in tensors in the given dimension.  All
   tensors must either have the same shape (except in the concatenating dimension) or be a 1-D empty tensor with
   size (0,)."  Modelled: exactly two tensors of the same rank whose shapes agree outside dimension k (torch
   raises RuntimeError on a mismatch; here None: the function never gets there); the (0,) exception: None.
   out[ix] = x[ix] if ix_k < x.size(k), else y[ix with ix_k - x.size(k)] *)
Definition cat2 {X} (d : X) (x y : tn X) (dm : Z) : option (tn X) :=
  match wrap_dim (rank x) dm with
  | Some k =>
      if (rank x =? rank y) && nats_eqb (remove_at k (shp x)) (remove_at k (shp y))
      then let n := nth k (shp x) 0 in
           Some (tab (set_at (shp x) k (n + nth k (shp y) 0))
                   (fun ix => if at_ ix k <? n then get d x ix else get d y (set_at ix k (at_ ix k - n))))
      else None
  | None => None
  end.

(* ---- indexing ------------------------------------------------------------------------------------------ *)
(* torch.gather(input, dim, index): "Gathers values along an axis specified by dim.  For a 3-D tensor the output
   is specified by:  out[i][j][k] = input[index[i][j][k]][j][k]  # if dim == 0 ... input and index must have
   the same number of dimensions.  It is also required that index.size(d) <= input.size(d) for all dimensions
   d != dim.  out will have the same shape as index."   Every index must lie in [0, input.size(dim)) (torch
   raises otherwise: None).   out[ix] = x[ix with its k-th component replaced by index[ix]] *)
Definition gather {X} (d : X) (x : tn X) (dm : Z) (idx : tn Z) : option (tn X) :=
  match wrap_dim (rank x) dm with
  | Some k =>
      if (rank x =? rank idx)
         && forallb (fun p => fst p <=? snd p) (combine (remove_at k (shp idx)) (remove_at k (shp x)))
         && forallb (zin (nth k (shp x) 0)) (dat idx)
      then Some (tab (shp idx) (fun ix => get d x (set_at ix k (Z.to_nat (get 0%Z idx ix)))))
      else None
  | None => None
  end.

(* Tensor.scatter(dim, index, src) / Tensor.scatter(dim, index, value) (out-of-place scatter_): "Writes all
   values from the tensor src into self at the indices specified in the index tensor.  For a 3-D tensor, self is
   updated as:  self[index[i][j][k]][j][k] = src[i][j][k]  # if dim == 0 ...  the values of index must be
   between 0 and self.size(dim) - 1 inclusive" ("value": "the source element to scatter" instead of src).
   Modelled ONLY for an index tensor with a SINGLE LAYER along dim (index.size(dim) = 1: no two writes compete
   for a cell) whose other sizes are those of self, src (if a tensor) of the index's shape, every index in range
   (None otherwise).   out[ix] = src[p] (or value) if ix_k = index[p], else self[ix],  p = ix with 0 at k *)
Definition scatter_with {X} (d : X) (x : tn X) (dm : Z) (idx : tn Z) (src : list nat -> X) : option (tn X) :=
  match wrap_dim (rank x) dm with
  | Some k =>
      if (k <? rank x) && nats_eqb (shp idx) (set_at (shp x) k 1)
         && forallb (zin (nth k (shp x) 0)) (dat idx)
      then Some (tab (shp x) (fun ix => let p := set_at ix k 0 in
                                        if at_ ix k =? Z.to_nat (get 0%Z idx p) then src p else get d x ix))
      else None
  | None => None
  end.

Definition scatter_value {X} (d : X) (x : tn X) (dm : Z) (idx : tn Z) (v : X) : option (tn X) :=
  scatter_with d x dm idx (fun _ => v).

Definition scatter_src {X} (d : X) (x : tn X) (dm : Z) (idx : tn Z) (src : tn X) : option (tn X) :=
  if nats_eqb (shp src) (shp idx) then scatter_with d x dm idx (get d src) else None.

(* torch.nn.functional.one_hot(tensor, num_classes): "Takes LongTensor with index values of shape ( * ) and returns
   a tensor of shape ( *, num_classes) that have zeros everywhere except where the index of last dimension
   matches the corresponding value of the input tensor, in which case it will be 1."  Every value must lie in
   [0, num_classes) (torch raises otherwise: None); num_classes >= 1 (-1 = "inferred": None). *)
Definition one_hot (x : tn Z) (n : Z) : option (tn Z) :=
  if ((1 <=? n)%Z && forallb (zin (Z.to_nat n)) (dat x))%bool
  then Some (tab (shp x ++ [Z.to_nat n])
               (fun ix => if last ix 0 =? Z.to_nat (get 0%Z x (removelast ix)) then 1%Z else 0%Z))
  else None.

(* ---- element-wise, with broadcasting ------------------------------------------------------------------ *)
(* "Two tensors are broadcastable if ... when iterating over the dimension sizes, starting at the trailing
   dimension, the dimension sizes must either be equal, one of them is 1, or one of them does not exist"; the
   result size along a dimension is the one that is not 1 (Ops.bdim); along a dimension of size 1 the single
   entry is repeated (Ops.bidx).  Modelled for operands of EQUAL RANK (a missing leading dimension: None - every
   use in the function has equal ranks). *)
Fixpoint bc_shape (sa sb : list nat) : option (list nat) :=
  match sa, sb with
  | [], [] => Some []
  | a :: ra, b :: rb =>
      match bdim a b, bc_shape ra rb with
      | Some n, Some r => Some (n :: r)
      | _, _ => None
      end
  | _, _ => None
  end.

Definition zipb {X Y W} (dx : X) (dy : Y) (f : X -> Y -> W) (a : tn X) (b : tn Y) : option (tn W) :=
  match bc_shape (shp a) (shp b) with
  | Some sh => Some (tab sh (fun ix => f (get dx a (zipw bidx (shp a) ix)) (get dy b (zipw bidx (shp b) ix))))
  | None => None
  end.

Definition b2z (b : bool) : Z := if b then 1%Z else 0%Z.
Definition is_fin (m : M.mass) : bool := negb (M.is_neginf m).

(* `a + b` on float tensors = torch.add: exact sum, -inf absorbing (no +inf in this unit, so no nan) = Model.madd *)
Definition fadd := zipb M.NegInf M.NegInf M.madd.

(* `a * b` on float tensors = torch.mul: "Multiplies input by other."  Modelled for FINITE operands only
   (-inf * 0 = nan, -inf * negative = +inf are not representable): None if either holds a -inf *)
Definition mmul (a b : M.mass) : M.mass :=
  match a, b with M.Fin x, M.Fin y => M.Fin (x * y)%Qc | _, _ => M.NegInf end.
Definition fmul (a b : tn M.mass) : option (tn M.mass) :=
  if forallb is_fin (dat a) && forallb is_fin (dat b) then zipb M.NegInf M.NegInf mmul a b else None.

(* long + bool, long * bool: type promotion reads True as 1, False as 0; long * long, long + long *)
Definition iadd_b := zipb 0%Z false (fun x b => (x + b2z b)%Z).
Definition imul_b := zipb 0%Z false (fun x b => (x * b2z b)%Z).
Definition iadd := zipb 0%Z 0%Z Z.add.
(* `a & b`, `a | b` on bool tensors = torch.bitwise_and / bitwise_or: "For bool tensors, it computes the logical AND (OR)" *)
Definition band := zipb false false andb.
Definition bor := zipb false false orb.
(* `a == b`, `a <= b` on long tensors = torch.eq / torch.le: "Computes input == other (<=) element-wise"; a bool tensor *)
Definition ieq := zipb 0%Z 0%Z Z.eqb.
Definition ile := zipb 0%Z 0%Z Z.leb.

(* Tensor.masked_fill(mask, value): "Fills elements of self tensor with value where mask is True.  The shape of mask
   must be broadcastable with the shape of the underlying tensor."  The result has self's shape: a mask that
   would enlarge it is refused. *)
Definition masked_fill {X} (d : X) (x : tn X) (m : tn bool) (v : X) : option (tn X) :=
  match zipb d false (fun e (b : bool) => if b then v else e) x m with
  | Some r => if nats_eqb (shp r) (shp x) then Some r else None
  | None => None
  end.

(* torch.where(condition, input, other): "Return a tensor of elements selected from either input or other,
   depending on condition": input where condition is True.  Modelled for three tensors of EQUAL shape. *)
Definition where_ {X} (d : X) (c : tn bool) (a b : tn X) : option (tn X) :=
  if nats_eqb (shp c) (shp a) && nats_eqb (shp c) (shp b)
  then Some (tab (shp c) (fun ix => if get false c ix then get d a ix else get d b ix))
  else None.

(* ---- element-wise with a Python number (shape unchanged) -------------------------------------------------- *)
(* `x + c`, `x - c` (long tensor, int c) *)
Definition iadd_s (x : tn Z) (c : Z) : tn Z := tmap (fun v => (v + c)%Z) x.
Definition isub_s (x : tn Z) (c : Z) : tn Z := tmap (fun v => (v - c)%Z) x.
(* `x % c` = torch.remainder: "Computes Python's modulus operation entrywise.  The result has the same sign as the
   divisor other"; pydrobert.torch._compat.trunc_divide(x, c) = x.div(c, rounding_mode="trunc") (its eager branch;
   the wrapper itself is NOT translated): "rounds the results of the division towards zero".  int c <> 0. *)
Definition irem_s (x : tn Z) (c : Z) : option (tn Z) :=
  if (c =? 0)%Z then None else Some (tmap (fun v => Z.modulo v c) x).
Definition itrunc_div_s (x : tn Z) (c : Z) : option (tn Z) :=
  if (c =? 0)%Z then None else Some (tmap (fun v => Z.quot v c) x).
(* `x >= c` = torch.ge(x, c): "Computes input >= other element-wise" *)
Definition ige_s (x : tn Z) (c : Z) : tn bool := tmap (fun v => (c <=? v)%Z) x.
(* Tensor.clamp(min, max): "Clamps all elements in input into the range [min, max]: y_i = min(max(x_i, min_i), max_i)";
   either bound may be absent (None) *)
Definition iclamp (x : tn Z) (lo hi : option Z) : tn Z :=
  tmap (fun v => let v1 := match lo with Some l => Z.max v l | None => v end in
                 match hi with Some h => Z.min v1 h | None => v1 end) x.
(* `x == -float("inf")` on a float tensor: True exactly at the -inf entries *)
Definition feq_neginf (x : tn M.mass) : tn bool := tmap M.is_neginf x.
(* `~x` = torch.bitwise_not on a bool tensor: "For bool tensors, it computes the logical NOT." *)
Definition bnot (x : tn bool) : tn bool := tmap negb x.
(* Tensor.to(torch.bool) on a long tensor: nonzero -> True *)
Definition to_bool (x : tn Z) : tn bool := tmap (fun v => negb (v =? 0)%Z) x.

(* ---- reductions along one dimension (the dimension is removed) -------------------------------------------- *)
(* Tensor.sum(dim) on a float tensor: "Returns the sum of each row of the input tensor in the given dimension dim
   ... dim is squeezed".  Exact arithmetic: the order of summation does not matter; an empty row sums to 0. *)
Definition fsum (x : tn M.mass) (dm : Z) : option (tn M.mass) :=
  match wrap_dim (rank x) dm with
  | Some k =>
      Some (tab (remove_at k (shp x))
              (fun ix => fold_right M.madd (M.Fin 0%Qc)
                           (map (fun t => get M.NegInf x (insert_at k t ix)) (seq 0 (nth k (shp x) 0)))))
  | None => None
  end.

(* Tensor.any(dim) on a bool tensor: "For each row of input in the given dimension dim, returns True if any element
   in the row evaluate to True and False otherwise." *)
Definition bany (x : tn bool) (dm : Z) : option (tn bool) :=
  match wrap_dim (rank x) dm with
  | Some k =>
      Some (tab (remove_at k (shp x))
              (fun ix => existsb (fun t => get false x (insert_at k t ix)) (seq 0 (nth k (shp x) 0))))
  | None => None
  end.

(* ---- constructors ------------------------------------------------------------------------------------------ *)
(* torch.zeros(size, dtype=, device=) / torch.full(size, fill_value, ...) / torch.empty(size, ...) /
   Tensor.new_empty(size): "Returns a tensor filled with the scalar value 0" / "... filled with fill_value" /
   "... filled with uninitialized data": the cells of empty / new_empty are modelled as 0 (the C05 model does
   the same; the harness never compares them and the function reads them only under a false mask). *)
Definition full {X} (sizes : list Z) (v : X) : option (tn X) :=
  option_map (fun sh => tab sh (fun _ => v)) (nat_sizes sizes).

(* ---- topk ---------------------------------------------------------------------------------------------------- *)
(* Tensor.topk(k, dim): "Returns the k largest elements of the given input tensor along a given dimension. ...
   A namedtuple of (values, indices) is returned with the values and indices of the largest k elements of each
   row of the input tensor in the given dimension dim" (largest = True, sorted = True are the defaults).
   "the indices of tied elements are not guaranteed to be stable": the indices of row i are the ORACLE's
   [sel i row k]; its answer must consist of k in-range indices (None otherwise).
   Modelled: a 2-D float tensor (n, m), dim = 1 (or -1), 0 <= k <= m (torch raises "selected index k out of
   range" otherwise: None). *)
Definition topk (sel : nat -> list M.mass -> nat -> list nat) (x : tn M.mass) (k dm : Z)
  : option (tn M.mass * tn Z) :=
  match shp x, wrap_dim 2 dm with
  | [n; m], Some 1 =>
      if ((0 <=? k) && (k <=? Z.of_nat m))%Z then
        let kk := Z.to_nat k in
        let row i := map (fun j => get M.NegInf x [i; j]) (seq 0 m) in
        let ch i := sel i (row i) kk in
        if forallb (fun i => (List.length (ch i) =? kk) && forallb (fun j => j <? m) (ch i)) (seq 0 n)
        then Some (tab [n; kk] (fun ix => get M.NegInf x [at_ ix 0; nth (at_ ix 1) (ch (at_ ix 0)) 0]),
                   tab [n; kk] (fun ix => Z.of_nat (nth (at_ ix 1) (ch (at_ ix 0)) 0)))
        else None
      else None
  | _, _ => None
  end.

(* the two oracles used: the model's stable selection, and a fixed observed answer for row 0 *)
Definition sel_stable (_ : nat) (row : list M.mass) (k : nat) : list nat :=
  M.topk_stable (fun i => nth i row M.NegInf) (List.length row) k.
Definition sel_given (choice : list nat) (_ : nat) (_ : list M.mass) (_ : nat) : list nat := choice.
