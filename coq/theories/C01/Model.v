(* C01 — executable model of src/pydrobert/torch/_string.py::_string_matching for the
   cost-table outputs (return_mistakes = False): edit_distance, prefix_edit_distances and
   the modules EditDistance / PrefixEditDistances.  Also the table C02 / C03 build on.

   Mirrors what the code does: _lens_from_eos, the include_eos increment and its removal
   for sequences without eos, the uniform-cost shortcut (mult), row 0 = arange * del_cost,
   per hypothesis step the insertion / substitution candidates from the previous row, the
   deletion fold through the lower-triangular matrix del_mat (+inf above the diagonal,
   modelled as None), freezing with not_done, gather at ref_lens, norm with the empty
   reference convention, padding of the prefix table, both layouts.  The batch dimension is
   a map over columns.  No proofs in this file. *)
From Coq Require Import List ZArith QArith Bool Arith.
From PV Require Import C01.Obs.
Import ListNotations.
Local Open Scope Z_scope.

(* ---- small tensor layer ---------------------------------------------------------- *)
Fixpoint map2 {A B C} (f : A -> B -> C) (l1 : list A) (l2 : list B) : list C :=
  match l1, l2 with
  | x :: t1, y :: t2 => f x y :: map2 f t1 t2
  | _, _ => []
  end.

(* column k of a matrix given as a list of rows *)
Definition col {A} (d : A) (k : nat) (m : list (list A)) : list A :=
  map (fun row => nth k row d) m.

(* Tensor.t() of a matrix with [ncols] columns *)
Definition transpose {A} (d : A) (ncols : nat) (m : list (list A)) : list (list A) :=
  map (fun k => col d k m) (seq 0 ncols).

(* ---- _lens_from_eos ---------------------------------------------------------------- *)
(* index of the first eos, the length when there is none *)
Fixpoint first_eos (e : Z) (l : list Z) : nat :=
  match l with [] => O | x :: t => if x =? e then O else S (first_eos e t) end.

(* ref_lens / hyp_lens: lens + 1 for include_eos, minus the eq_mask (no eos found) *)
Definition eff_len (eos : option Z) (incl : bool) (l : list Z) : nat :=
  match eos with
  | None => length l
  | Some e =>
      let n := first_eos e l in
      if incl then (if Nat.eqb n (length l) then n + 1 - 1 else n + 1)%nat else n
  end.

(* ---- the deletion matrix and the fold through it ------------------------------------ *)
(* del_mat[i][j] = row0[i] - row0[j], +inf (None) strictly above the diagonal (triu(1)) *)
Definition del_entry (cd : Z) (i j : nat) : option Z :=
  if (j <=? i)%nat then Some (Z.of_nat i * cd - Z.of_nat j * cd) else None.

Definition oadd (m : option Z) (x : Z) : option Z :=
  match m with Some a => Some (a + x) | None => None end.

Definition omin (a b : option Z) : option Z :=
  match a, b with
  | Some x, Some y => Some (Z.min x y)
  | Some x, None => Some x
  | None, _ => b
  end.

Definition omin_list (l : list (option Z)) : option Z := fold_right omin None l.

(* (del_mat + row).min(1): new[i] = min_j (del_mat[i][j] + v[j]) *)
Definition del_fold (cd : Z) (v : list Z) : list Z :=
  let n := length v in
  map (fun i =>
         match omin_list (map (fun j => oadd (del_entry cd i j) (nth j v 0)) (seq 0 n)) with
         | Some x => x
         | None => 0
         end) (seq 0 n).

(* ---- one pair (one column of the batch) ---------------------------------------------- *)
Section Pair.
  Variables ci cd cs : Z.        (* the costs in force after the uniform-cost shortcut *)
  Variable r : list Z.           (* the whole reference column, garbage included *)
  Variable h : list Z.           (* the whole hypothesis column *)
  Variable hlen : nat.           (* hyp_lens[n] *)
  Variable excl : bool.          (* exclude_last *)

  (* row = arange(R + 1) * del_cost *)
  Definition row0 : list Z := map (fun i => Z.of_nat i * cd) (seq 0 (S (length r))).

  (* body of "for hyp_idx in range(1, ...)" *)
  Definition step_row (hyp_idx : nat) (last : list Z) : list Z :=
    let not_done := (hyp_idx - (if excl then 0 else 1) <? hlen)%nat in
    let ins_mask := if (hyp_idx <=? hlen)%nat then 1 else 0 in
    let tok := nth (hyp_idx - 1) h 0 in
    let neq_mask := map (fun a => if a =? tok then 0 else 1) r in
    let row := map (fun x => x + ci * ins_mask) last in
    let sub_row := map2 (fun x m => x + cs * m) (removelast last) neq_mask in
    let row := hd 0 row :: map2 Z.min (tl row) sub_row in
    let row := del_fold cd row in
    if not_done then row else last.

  Fixpoint rows_loop (fuel hyp_idx : nat) (last : list Z) : list (list Z) :=
    match fuel with
    | O => []
    | S f => let row := step_row hyp_idx last in row :: rows_loop f (S hyp_idx) row
    end.

  (* the rows after hyp_idx = 0, 1, ..., steps *)
  Definition all_rows (steps : nat) : list (list Z) := row0 :: rows_loop steps 1%nat row0.
End Pair.

Record cfg := mkCfg
  { c_eos : option Z; c_incl : bool; c_norm : bool; c_bf : bool;
    c_ins : Z; c_del : Z; c_sub : Z; c_pad : Z; c_excl : bool }.

(* "if ins_cost == del_cost == sub_cost > 0.0": (mult, (ins, del, sub)) *)
Definition eff_costs (i d s : Z) : Z * (Z * Z * Z) :=
  if (i =? d) && (d =? s) && (0 <? s) then (i, (1, 1, 1)) else (1, (i, d, s)).

(* er / ref_lens, replaced when ref_lens == 0 *)
Definition normalise (norm : bool) (rl : nat) (v : Z) (nonempty : bool) : val :=
  if norm then (if Nat.eqb rl 0 then Lit (if nonempty then 1 else 0) else Ratio v rl)
  else Cost v.

Definition pair_ed (c : cfg) (r h : list Z) : val :=
  let '(mult, (ci, cd, cs)) := eff_costs (c_ins c) (c_del c) (c_sub c) in
  let rl := eff_len (c_eos c) (c_incl c) r in
  let hl := eff_len (c_eos c) (c_incl c) h in
  let rows := all_rows ci cd cs r h hl false (length h) in
  let er := nth rl (last rows []) 0 * mult in
  normalise (c_norm c) rl er (0 <? hl)%nat.

Definition pair_prefix (c : cfg) (r h : list Z) : list val :=
  let '(mult, (ci, cd, cs)) := eff_costs (c_ins c) (c_del c) (c_sub c) in
  let rl := eff_len (c_eos c) (c_incl c) r in
  let hl := eff_len (c_eos c) (c_incl c) h in
  let out_len := (length h + (if c_excl c then 0 else 1))%nat in
  let rows := all_rows ci cd cs r h hl (c_excl c) (out_len - 1) in
  (* prefix_ers[0] = ref_lens * del_cost; prefix_ers[k] = row.gather(ref_lens) *)
  let ers := (Z.of_nat rl * cd) :: map (fun row => nth rl row 0) (tl rows) in
  map2 (fun k e =>
          if (hl + (if c_excl c then 0 else 1) <=? k)%nat then Lit (c_pad c)
          else normalise (c_norm c) rl (e * mult) (0 <? k)%nat)
       (seq 0 out_len) ers.

(* ---- the batch -------------------------------------------------------------------- *)
(* the N columns of the time-major tensor (after ref.t() when batch_first) *)
Definition sequences (bf : bool) (N : nat) (m : list (list Z)) : list (list Z) :=
  let tm := if bf then transpose 0 (length (hd [] m)) m else m in
  map (fun k => col 0 k tm) (seq 0 N).

Definition edit_distance (c : cfg) (N : nat) (ref hyp : list (list Z)) : list val :=
  map2 (pair_ed c) (sequences (c_bf c) N ref) (sequences (c_bf c) N hyp).

Definition prefix_edit_distances (c : cfg) (N : nat) (ref hyp : list (list Z))
  : list (list val) :=
  let hyps := sequences (c_bf c) N hyp in
  let per_pair := map2 (pair_prefix c) (sequences (c_bf c) N ref) hyps in
  let out_len := (length (hd [] hyps) + (if c_excl c then 0 else 1))%nat in
  let tm := transpose (Lit 0) out_len per_pair in        (* (H(+1), N) *)
  if c_bf c then transpose (Lit 0) N tm else tm.

(* ---- correspondence entry points ---------------------------------------------------- *)
Definition check_ed (c : cfg) (scale : Z) (N : nat) (ref hyp : list (list Z)) (obs : list Q) : bool :=
  forall2b (match_val scale) (edit_distance c N ref hyp) obs.

Definition check_prefix (c : cfg) (scale : Z) (N : nat) (ref hyp : list (list Z))
  (obs : list (list Q)) : bool :=
  forall2b (forall2b (match_val scale)) (prefix_edit_distances c N ref hyp) obs.
