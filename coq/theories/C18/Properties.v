(* C18 — property theorems (work in progress) *)
From Coq Require Import List ZArith QArith.
From PV Require Import C18.Model C18.Spec C18.Proofs.
Import ListNotations.

Theorem c18_stub : qsum [] = 0%Q.
Proof. exact qsum_nil. Qed.
Print Assumptions c18_stub.
