(* C10 - Slicing policies yield the documented windows; token chunks are slice-relative.
   Property theorems only: each is closed by [exact <lemma of Proofs*.v>] and followed by [Print Assumptions].
   The harness re-checks this file on every run.

   [v] is the model variant (Model.v header).  /repo today: k1 as coded (known finding K1), d1..d5 repaired
   (fix: commits da2ab1a, 1646a02, 8b9cc8a, 3726416); the correspondence check establishes on every run which variant
   the implementation follows and compares it with exactly that model. *)
From Coq Require Import List ZArith Bool Arith Lia Sorted.
From PV Require Import C10.Model C10.Spec C10.Proofs.
Import ListNotations.
Local Open Scope Z_scope.

(* ================================================================================================== *)
(* the slicer returns exactly the windows the documented policy prescribes, in order, each labelled   *)
(*  with its source element - one theorem per policy, for every window type, validity setting, lobe   *)
(*  size >= 0, batch size and in_lens / other_lens given or omitted                                    *)
(* ================================================================================================== *)
Theorem c10_fixed_windows_spec : forall v N T in_lens other_lens wt vo lobe,
  d3 v = false -> (1 <= T)%nat -> 0 <= lobe -> lens_ok N (Z.of_nat T) in_lens ->
  exists out, slice_spect_data v T (InFixed N) in_lens other_lens wt vo lobe = Some out
              /\ fixed_spec N (len_of (Z.of_nat T) in_lens) wt vo lobe out.
Proof. exact sd_fixed_windows_spec. Qed.
Print Assumptions c10_fixed_windows_spec.

Theorem c10_ali_windows_spec : forall v T rows in_lens other_lens wt vo lobe,
  d1 v = false -> d4 v = false -> (1 <= T)%nat -> 0 <= lobe ->
  Forall (fun r => length r = T) rows -> lens_ok (length rows) (Z.of_nat T) in_lens ->
  exists out, slice_spect_data v T (InAli rows) in_lens other_lens wt vo lobe = Some out
              /\ ali_spec rows (len_of (Z.of_nat T) in_lens) wt vo lobe out.
Proof. exact sd_ali_windows_spec. Qed.
Print Assumptions c10_ali_windows_spec.

Theorem c10_ref_windows_spec : forall v T rows in_lens other_lens wt vo lobe,
  d2 v = false -> (1 <= T)%nat -> 0 <= lobe -> ref_lens_ok T rows in_lens other_lens ->
  exists out, slice_spect_data v T (InRef rows) in_lens other_lens wt vo lobe = Some out
              /\ ref_spec rows (ref_len T in_lens) (ref_other T rows in_lens other_lens) wt vo lobe out.
Proof. exact sd_ref_windows_spec. Qed.
Print Assumptions c10_ref_windows_spec.

(* "exactly": each spec has one solution, so an output meets the spec iff it equals the model's *)
Theorem c10_fixed_spec_unique : forall N len wt vo lobe o1 o2,
  fixed_spec N len wt vo lobe o1 -> fixed_spec N len wt vo lobe o2 -> o1 = o2.
Proof. exact fixed_spec_unique. Qed.
Print Assumptions c10_fixed_spec_unique.

Theorem c10_ali_spec_unique : forall rows len wt vo lobe o1 o2,
  ali_spec rows len wt vo lobe o1 -> ali_spec rows len wt vo lobe o2 -> o1 = o2.
Proof. exact ali_spec_unique. Qed.
Print Assumptions c10_ali_spec_unique.

Theorem c10_ref_spec_unique : forall rows len other wt vo lobe o1 o2,
  ref_spec rows len other wt vo lobe o1 -> ref_spec rows len other wt vo lobe o2 -> o1 = o2.
Proof. exact ref_spec_unique. Qed.
Print Assumptions c10_ref_spec_unique.

(* lengths 0: an input without frames yields no windows, and the policy prescribes none for an empty sequence *)
Theorem c10_empty_input_no_windows : forall v inp il ol wt vo lobe, slice_spect_data v 0 inp il ol wt vo lobe = Some [].
Proof. exact empty_input_no_windows. Qed.
Print Assumptions c10_empty_input_no_windows.

Theorem c10_fixed_len0_no_windows : forall wt vo lobe out, 0 <= lobe -> fixed_seq_spec wt vo lobe 0 out -> out = [].
Proof. exact fixed_len0_no_windows. Qed.
Print Assumptions c10_fixed_len0_no_windows.

(* ================================================================================================== *)
(* "with valid-only set every returned window lies inside its sequence"                                *)
(* ================================================================================================== *)
Theorem c10_valid_only_inside : forall v T inp in_lens other_lens wt lobe out w n,
  d1 v = false -> d2 v = false -> d3 v = false -> d4 v = false -> (1 <= T)%nat -> 0 <= lobe ->
  match inp with
  | InFixed N => lens_ok N (Z.of_nat T) in_lens
  | InAli rows => Forall (fun r => length r = T) rows /\ lens_ok (length rows) (Z.of_nat T) in_lens
  | InRef rows => ref_lens_ok T rows in_lens other_lens
  end ->
  slice_spect_data v T inp in_lens other_lens wt true lobe = Some out -> In (w, Z.of_nat n) out ->
  inside (match inp with
          | InRef rows => ref_other T rows in_lens other_lens n
          | _ => len_of (Z.of_nat T) in_lens n
          end) w.
Proof. exact sd_valid_only_inside. Qed.
Print Assumptions c10_valid_only_inside.

(* ================================================================================================== *)
(* Token chunking keeps, in order, exactly the tokens whose known segments are contained in the slice *)
(*  (or merely overlap it when partial matches are allowed), and unless asked to retain them           *)
(*  re-expresses their boundaries as offsets from the slice start                                     *)
(* ================================================================================================== *)
(* holds when boundaries are retained (any variant) and, for relative boundaries, with the corrected arithmetic *)
Theorem c10_tokens_kept_iff_contained_or_overlap : forall v refs slices ref_lens partial retain R n,
  tokens_shape_ok refs slices R -> (n < length refs)%nat -> (retain = true \/ k1 v = false) ->
  let out := chunk_tokens v refs slices ref_lens partial retain in
  tokens_row_spec partial retain (rowL ref_lens n) (nth n slices (0, 0)) (nth n refs []) (nth n (fst out) [])
  /\ nth n (snd out) 0 = zlen (nth n (fst out) [])
  /\ length (fst out) = length refs /\ length (snd out) = length refs.
Proof. exact tokens_kept_spec. Qed.
Print Assumptions c10_tokens_kept_iff_contained_or_overlap.

(* "in order", and the SET of kept tokens is right even with the arithmetic as coded *)
Theorem c10_tokens_order_preserved : forall v refs slices ref_lens partial retain R n,
  tokens_shape_ok refs slices R -> (n < length refs)%nat ->
  let out := chunk_tokens v refs slices ref_lens partial retain in
  subseq (map tk_tok (nth n (fst out) [])) (map tk_tok (nth n refs []))
  /\ map tk_tok (nth n (fst out) []) = map tk_tok (nth n (fst (chunk_tokens repaired refs slices ref_lens partial retain)) []).
Proof. exact tokens_order_preserved. Qed.
Print Assumptions c10_tokens_order_preserved.

Theorem c10_retain_keeps_boundaries : forall v refs slices ref_lens partial R n,
  tokens_shape_ok refs slices R -> (n < length refs)%nat ->
  subseq (nth n (fst (chunk_tokens v refs slices ref_lens partial true)) []) (nth n refs []).
Proof. exact retain_keeps_boundaries. Qed.
Print Assumptions c10_retain_keeps_boundaries.

(* "overlap" for a non-empty token and slice means sharing a frame; containment implies it *)
Theorem c10_overlap_iff_common_frame : forall sl x, tk_start x < tk_end x -> fst sl < snd sl ->
  (tok_in true sl x <-> exists t, fst sl <= t < snd sl /\ tk_start x <= t < tk_end x).
Proof. exact overlap_iff_common_frame. Qed.
Print Assumptions c10_overlap_iff_common_frame.

(* KNOWN FINDING K1: as coded the relative boundaries are wrong ... *)
Theorem c10_relative_boundaries_refuted :
  exists refs slices,
    tokens_shape_ok refs slices 1
    /\ fst (chunk_tokens as_coded refs slices None false false) = [[(8, 4, 7)]]
    /\ ~ tokens_row_spec false false None (nth 0 slices (0, 0)) (nth 0 refs []) [(8, 4, 7)]
    /\ tokens_row_spec false false None (nth 0 slices (0, 0)) (nth 0 refs []) [(8, 0, 3)].
Proof. exact relative_boundaries_refuted. Qed.
Print Assumptions c10_relative_boundaries_refuted.

(* ... in exactly one way, for all inputs: every kept boundary is the spec's plus twice the slice start *)
Theorem c10_relative_boundaries_characterised : forall v refs slices ref_lens partial R n,
  tokens_shape_ok refs slices R -> (n < length refs)%nat -> k1 v = true ->
  nth n (fst (chunk_tokens v refs slices ref_lens partial false)) []
  = map (fun x => (tk_tok x, tk_start x + 2 * fst (nth n slices (0, 0)), tk_end x + 2 * fst (nth n slices (0, 0))))
        (nth n (fst (chunk_tokens repaired refs slices ref_lens partial false)) [])
  /\ snd (chunk_tokens v refs slices ref_lens partial false) = snd (chunk_tokens repaired refs slices ref_lens partial false).
Proof. exact relative_boundaries_characterised. Qed.
Print Assumptions c10_relative_boundaries_characterised.

(* ================================================================================================== *)
(* Consequently chunking a well-formed data directory by any policy yields a well-formed data         *)
(*  directory in which every chunk equals the source restricted to its window  (corrected arithmetic) *)
(* ================================================================================================== *)
Theorem c10_chunk_is_restriction : forall v p wt lobe partial retain u chunks ch,
  d1 v = false -> d2 v = false -> d3 v = false -> d4 v = false -> (retain = true \/ k1 v = false) ->
  utt_wf (u_feat u) (u_ali u) (utt_ref_list u) ->
  chunk_utt v p wt None lobe partial retain u = Some chunks -> In ch chunks ->
  inside (zlen (u_feat u)) (c_win ch)
  /\ c_feat ch = restrict (u_feat u) (c_win ch)
  /\ c_ali ch = match u_ali u with Some a => Some (restrict a (c_win ch)) | None => None end
  /\ match u_ref u with
     | Some (RefSeg r) => exists out, c_ref ch = Some out /\ tokens_row_spec partial retain None (c_win ch) r out
     | Some (RefTok _) => c_ref ch = Some []
     | None => c_ref ch = None
     end.
Proof. exact chunk_is_restriction. Qed.
Print Assumptions c10_chunk_is_restriction.

(* with or without --pad-mode (constant): a chunk has the length of its window, equals the source inside the utterance
   and the pad value outside (padding itself is property C09's subject) *)
Theorem c10_chunk_padded_restriction : forall v p wt pad lobe partial retain u chunks ch,
  chunk_utt v p wt pad lobe partial retain u = Some chunks -> In ch chunks ->
  let a := fst (c_win ch) in
  let c := pad_c pad in
  length (c_feat ch) = Z.to_nat (Z.max (snd (c_win ch) - a) 0)
  /\ (forall i, (i < length (c_feat ch))%nat ->
        nth i (c_feat ch) c = if (0 <=? a + Z.of_nat i) && (a + Z.of_nat i <? zlen (u_feat u))
                              then nth (Z.to_nat (a + Z.of_nat i)) (u_feat u) c else c)
  /\ match u_ali u, c_ali ch with
     | Some al, Some cal =>
         length cal = length (c_feat ch)
         /\ forall i, (i < length cal)%nat ->
              nth i cal c = if (0 <=? a + Z.of_nat i) && (a + Z.of_nat i <? zlen al)
                            then nth (Z.to_nat (a + Z.of_nat i)) al c else c
     | None, None => True
     | _, _ => False
     end.
Proof. exact chunk_padded_restriction. Qed.
Print Assumptions c10_chunk_padded_restriction.

(* any policy, window type, lobe, with or without --pad-mode; default token options *)
Theorem c10_chunked_dir_wellformed : forall v p wt pad lobe u chunks ch,
  k1 v = false ->
  chunk_utt v p wt pad lobe false false u = Some chunks -> In ch chunks ->
  utt_wf (c_feat ch) (c_ali ch) (c_ref ch).
Proof. exact chunked_dir_wellformed. Qed.
Print Assumptions c10_chunked_dir_wellformed.

(* K1 again: with the arithmetic as coded the consequence fails *)
Theorem c10_dir_k1_refuted :
  exists u chunks ch,
    utt_wf (u_feat u) (u_ali u) (utt_ref_list u)
    /\ chunk_utt k1_only Fixed Causal None 2 false false u = Some chunks /\ In ch chunks
    /\ ~ utt_wf (c_feat ch) (c_ali ch) (c_ref ch).
Proof. exact dir_k1_refuted. Qed.
Print Assumptions c10_dir_k1_refuted.

(* ================================================================================================== *)
(* The other as-coded definitions (repaired in /repo; kept because the check tests for a relapse):     *)
(* each makes the statement above false                                                                *)
(* ================================================================================================== *)
Theorem c10_ali_d1_refuted :
  slice_spect_data as_coded 4 (InAli [[1; 1; 2; 2]]) None None Symmetric true 0 = None
  /\ ali_spec [[1; 1; 2; 2]] (len_of 4 None) Symmetric true 0 [((0, 2), 0); ((2, 4), 0)].
Proof. exact ali_d1_refuted. Qed.
Print Assumptions c10_ali_d1_refuted.

Theorem c10_ref_d2_refuted :
  slice_spect_data as_coded 2 (InRef [[(7, 0, 2); (8, 2, 5)]]) None None Symmetric true 0 = None
  /\ ref_spec [[(7, 0, 2); (8, 2, 5)]] (ref_len 2 None) (ref_other 2 [[(7, 0, 2); (8, 2, 5)]] None None)
              Symmetric true 0 [((0, 2), 0); ((2, 5), 0)].
Proof. exact ref_d2_refuted. Qed.
Print Assumptions c10_ref_d2_refuted.

Theorem c10_ref_d2_always_raises : forall v T rows in_lens wt vo lobe,
  d2 v = true -> slice_ref v T rows in_lens None wt vo lobe = None.
Proof. exact ref_d2_always_raises. Qed.
Print Assumptions c10_ref_d2_always_raises.

Theorem c10_fixed_d3_refuted :
  exists out, slice_fixed as_coded 1 1 None Symmetric false 1 = Some out
              /\ ~ fixed_spec 1 (len_of 1 None) Symmetric false 1 out.
Proof. exact fixed_d3_refuted. Qed.
Print Assumptions c10_fixed_d3_refuted.

(* D3 shows only when in_lens is omitted: with in_lens given every variant agrees with the repaired one *)
Theorem c10_fixed_given_lens_agree : forall v N T ls wt vo lobe,
  0 <= lobe -> 0 <= T -> lens_ok N T (Some ls) ->
  slice_fixed v N T (Some ls) wt vo lobe = slice_fixed repaired N T (Some ls) wt vo lobe.
Proof. exact fixed_given_lens_agree. Qed.
Print Assumptions c10_fixed_given_lens_agree.

Theorem c10_ali_d4_refuted :
  slice_spect_data (mkV false false false false true false) 4 (InAli [[1; 2; 3; 0]]) (Some [3]) None Symmetric true 2 = None
  /\ ali_spec [[1; 2; 3; 0]] (len_of 4 (Some [3])) Symmetric true 2 [].
Proof. exact ali_d4_refuted. Qed.
Print Assumptions c10_ali_d4_refuted.

(* ================================================================================================== *)
(* non-vacuity: the docstring's worked examples meet the hypotheses and give the documented windows    *)
(* ================================================================================================== *)
Example c10_ali_nonvacuous :
  let row := [1; 1; 1; 1; 2; 2; 2; 1; 5; 5] in
  Forall (fun r => length r = 10%nat) [row] /\ lens_ok 1 10 None
  /\ slice_spect_data k1_only 10 (InAli [row]) None None Symmetric true 1 = Some [((0, 8), 0); ((4, 10), 0)]
  /\ slice_spect_data k1_only 10 (InAli [row]) None None Causal false 1
     = Some [((0, 4), 0); ((0, 7), 0); ((4, 8), 0); ((7, 10), 0)]
  /\ slice_spect_data k1_only 11 (InAli [row ++ [0]; row ++ [0]]) (Some [10; 4]) None Future true 1
     = Some [((0, 7), 0); ((4, 8), 0); ((7, 10), 0)].
Proof. cbv zeta. split; [repeat constructor|]. split; [exact I|]. repeat split; vm_compute; reflexivity. Qed.

Example c10_fixed_nonvacuous :
  lens_ok 2 11 (Some [8; 5])
  /\ slice_spect_data k1_only 11 (InFixed 2) (Some [8; 5]) None Symmetric false 2
     = Some [((-1, 4), 0); ((2, 7), 0); ((5, 10), 0); ((-1, 4), 1); ((2, 7), 1)]
  /\ slice_spect_data k1_only 8 (InFixed 1) None None Symmetric true 2 = Some [((0, 5), 0); ((3, 8), 0)].
Proof.
  split; [split; [reflexivity|repeat (apply Forall_cons; [lia|]); apply Forall_nil]|].
  split; vm_compute; reflexivity.
Qed.

Example c10_ref_nonvacuous :
  let row := [(1, 0, 0); (2, 2, 3); (3, -1, 1); (4, 0, -1); (5, 3, 5); (6, 4, 4)] in
  ref_lens_ok 6 [row] (Some [5]) (Some [6]) /\ ref_lens_ok 6 [row] (Some [5]) None
  /\ slice_spect_data k1_only 6 (InRef [row]) (Some [5]) (Some [6]) Symmetric false 2
     = Some [((-2, 2), 0); ((0, 5), 0); ((1, 7), 0)]
  /\ slice_spect_data k1_only 6 (InRef [row]) (Some [5]) None Causal true 2 = Some [((0, 3), 0); ((1, 5), 0)].
Proof.
  cbv zeta. split; [reflexivity|].
  split; [intros n Hn; assert (n = 0%nat) by (cbn in Hn; lia); subst n; vm_compute; reflexivity|].
  split; vm_compute; reflexivity.
Qed.

Example c10_tokens_nonvacuous :
  tokens_shape_ok [[(8, 2, 5); (9, 5, 9); (1, 9, 12)]; [(3, 0, 2); (4, -1, -1); (5, 1, 1)]] [(2, 9); (0, 2)] 3
  /\ chunk_tokens repaired [[(8, 2, 5); (9, 5, 9); (1, 9, 12)]; [(3, 0, 2); (4, -1, -1); (5, 1, 1)]] [(2, 9); (0, 2)]
                  (Some [3; 2]) false false
     = ([[(8, 0, 3); (9, 3, 7)]; [(3, 0, 2)]], [2; 1])
  /\ chunk_tokens as_coded [[(8, 2, 5); (9, 5, 9); (1, 9, 12)]; [(3, 0, 2); (4, -1, -1); (5, 1, 1)]] [(2, 9); (0, 2)]
                  (Some [3; 2]) true false
     = ([[(8, 4, 7); (9, 7, 11)]; [(3, 0, 2)]], [2; 1]).
Proof. split; [split; [repeat constructor|reflexivity]|]. split; vm_compute; reflexivity. Qed.

(* ================================================================================================== *)
(* the tie to the source text (chunk_token_sequences_by_slices)                                       *)
(*  PV.Gen.C10Src.chunk_tokens_body is regenerated from /repo/src/pydrobert/torch/_feats.py on every  *)
(*  run (harness/py2coq/translate.py: the body of the function, node for node); PV.MiniPy.Interp is   *)
(*  the semantics of the translated subset; SrcRun.ext10 gives the torch calls (ndim/size/shape,      *)
(*  arange, ones, unsqueeze, broadcasting comparisons, &, all, ellipsis/slice/boolean-mask indexing,  *)
(*  long().sum, expand, view, new_empty, masked_scatter_, the in-place += on a slice) the meaning     *)
(*  defined in PV.MiniTorch.OpsC10 (unbounded integers; new_empty cells are UNDEFINED until written). *)
(*  The theorems are about that regenerated term, for EVERY N, R, refs, slices, ref_lens given or     *)
(*  omitted, partial, retain.  The model side is AS CODED (known finding K1: += where the property    *)
(*  wants -=): that is what the text says.                                                            *)
(* ================================================================================================== *)
From PV Require MiniPy.Syntax MiniPy.Interp MiniTorch.OpsC10 MiniTorch.ValueC10 Gen.C10Src C10.SrcRun C10.TieModel C10.Tie
  C10.TieShapes.

(* running the source text on N rows of R triples returns exactly the model's result: the (N, R, 3) tensor whose row n
   holds the model's tokens and then R - chunked_lens[n] UNDEFINED triples (SrcRun.chunked_tensor), and chunked_lens *)
Theorem c10_source_tokens_is_model : forall R refs slices ref_lens partial retain,
  tokens_shape_ok refs slices R -> TieModel.lens_shape_ok (length refs) ref_lens ->
  exists st,
    Interp.run SrcRun.ext10 C10Src.chunk_tokens_body (SrcRun.tokens_vars R refs slices ref_lens partial retain)
    = Interp.Ok (SrcRun.result_value R (chunk_tokens as_coded refs slices ref_lens partial retain)) st.
Proof. exact Tie.tokens_tie_ok. Qed.
Print Assumptions c10_source_tokens_is_model.

(* the same in the executable form the harness evaluates on the cases of every run: reading the DEFINED cells
   chunked[n, :chunked_lens[n]] of what the interpreted source returns gives the model's lists *)
Theorem c10_source_tokens_refines_model : forall R refs slices ref_lens partial retain,
  tokens_shape_ok refs slices R -> TieModel.lens_shape_ok (length refs) ref_lens ->
  SrcRun.src_chunk_tokens R refs slices ref_lens partial retain
  = Some (chunk_tokens as_coded refs slices ref_lens partial retain).
Proof. exact Tie.src_chunk_tokens_tie_ok. Qed.
Print Assumptions c10_source_tokens_refines_model.

Theorem c10_source_tokens_check_is_check : forall R refs slices ref_lens partial retain impl,
  tokens_shape_ok refs slices R -> TieModel.lens_shape_ok (length refs) ref_lens ->
  SrcRun.src_chunk_tokens_check R refs slices ref_lens partial retain impl
  = check_tokens as_coded refs slices ref_lens partial retain impl.
Proof. exact Tie.src_chunk_tokens_check_ok. Qed.
Print Assumptions c10_source_tokens_check_is_check.

(* malformed calls, ARBITRARY tensors (any data, any further arguments): RuntimeError, raised where the text raises it *)
Theorem c10_source_tokens_raises_ndim : forall refs slices rl partial retain,
  OpsC10.ndim refs <> 2%nat -> OpsC10.ndim refs <> 3%nat ->
  Interp.run SrcRun.ext10 C10Src.chunk_tokens_body (SrcRun.tokens_vars_raw refs slices rl partial retain)
  = Interp.Exc SrcRun.runtime_error (Interp.mkState (SrcRun.tokens_vars_raw refs slices rl partial retain) []).
Proof. exact TieShapes.tokens_raises_ndim. Qed.
Print Assumptions c10_source_tokens_raises_ndim.

Theorem c10_source_tokens_raises_last_dim : forall refs slices rl partial retain n m k,
  OpsC10.ishape refs = [n; m; k] -> k <> 3%nat ->
  Interp.run SrcRun.ext10 C10Src.chunk_tokens_body (SrcRun.tokens_vars_raw refs slices rl partial retain)
  = Interp.Exc SrcRun.runtime_error (Interp.mkState (SrcRun.tokens_vars_raw refs slices rl partial retain) []).
Proof. exact TieShapes.tokens_raises_last_dim. Qed.
Print Assumptions c10_source_tokens_raises_last_dim.

Theorem c10_source_tokens_raises_slices : forall refs ss sd rl partial retain N R,
  OpsC10.ishape refs = [N; R; 3%nat] -> ss <> [N; 2%nat] ->
  exists st,
    Interp.run SrcRun.ext10 C10Src.chunk_tokens_body
      (SrcRun.tokens_vars_raw refs (OpsC10.mkIT ss sd) rl partial retain)
    = Interp.Exc SrcRun.runtime_error st.
Proof. exact TieShapes.tokens_raises_slices. Qed.
Print Assumptions c10_source_tokens_raises_slices.

Theorem c10_source_tokens_raises_ref_lens : forall refs slices ls ld partial retain N R,
  OpsC10.ishape refs = [N; R; 3%nat] -> OpsC10.ishape slices = [N; 2%nat] -> ls <> [N] ->
  exists st,
    Interp.run SrcRun.ext10 C10Src.chunk_tokens_body
      (SrcRun.tokens_vars_raw refs slices (Some (OpsC10.mkIT ls ld)) partial retain)
    = Interp.Exc SrcRun.runtime_error st.
Proof. exact TieShapes.tokens_raises_ref_lens. Qed.
Print Assumptions c10_source_tokens_raises_ref_lens.

(* token-only (2-D) refs: an (N, 0) tensor and N zero lengths, whatever the other arguments are *)
Theorem c10_source_tokens_2d_empty : forall refs slices rl partial retain N R,
  OpsC10.ishape refs = [N; R] ->
  exists st,
    Interp.run SrcRun.ext10 C10Src.chunk_tokens_body (SrcRun.tokens_vars_raw refs slices rl partial retain)
    = Interp.Ok (Syntax.VTuple [ValueC10.enc10 (OpsC10.new_empty [N; 0%nat]); ValueC10.enc10 (OpsC10.new_zeros [N])]) st.
Proof. exact TieShapes.tokens_2d. Qed.
Print Assumptions c10_source_tokens_2d_empty.

(* composed with c10_tokens_kept_iff_contained_or_overlap / c10_tokens_order_preserved: a statement purely about the
   interpreted source.  Whatever the boundary arithmetic as coded does (K1), the value the source returns decodes to
   rows / lens such that row n holds exactly the tokens of refs[n] that lie before ref_lens[n] and whose known segment
   is contained in (partial: overlaps) slices[n] - same token ids, same order as the spec's unique answer spec_row -,
   chunked_lens[n] is their number, and with retain the triples themselves are the spec's. *)
Theorem c10_source_tokens_kept_in_order : forall R refs slices ref_lens partial retain n,
  tokens_shape_ok refs slices R -> TieModel.lens_shape_ok (length refs) ref_lens -> (n < length refs)%nat ->
  exists rows lens st spec_row,
    Interp.run SrcRun.ext10 C10Src.chunk_tokens_body (SrcRun.tokens_vars R refs slices ref_lens partial retain)
      = Interp.Ok (SrcRun.result_value R (rows, lens)) st
    /\ SrcRun.read_result (SrcRun.chunked_tensor R rows) (SrcRun.vec_tensor lens) = Some (rows, lens)
    /\ tokens_row_spec partial retain (rowL ref_lens n) (nth n slices (0, 0)) (nth n refs []) spec_row
    /\ map tk_tok (nth n rows []) = map tk_tok spec_row
    /\ nth n lens 0 = zlen spec_row
    /\ (retain = true -> nth n rows [] = spec_row).
Proof. exact Tie.source_tokens_kept_in_order_ok. Qed.
Print Assumptions c10_source_tokens_kept_in_order.

(* non-vacuity: the interpreted source on the inputs of c10_tokens_nonvacuous (as coded: + 2 on the first row), a
   malformed and a 2-D call *)
Example c10_source_tokens_nonvacuous :
  SrcRun.src_chunk_tokens 3 [[(8, 2, 5); (9, 5, 9); (1, 9, 12)]; [(3, 0, 2); (4, -1, -1); (5, 1, 1)]] [(2, 9); (0, 2)]
      (Some [3; 2]) true false
    = Some ([[(8, 4, 7); (9, 7, 11)]; [(3, 0, 2)]], [2; 1])
  /\ SrcRun.src_tokens_rejects [1; 3; 2]%nat [1; 2]%nat None = true
  /\ SrcRun.src_tokens_2d_empty 2 3 = true.
Proof. split; [vm_compute; reflexivity|]. split; vm_compute; reflexivity. Qed.

(* ================================================================================================== *)
(* SECOND SOURCE TIE: the Python text of `slice_spect_data` (whole body), regenerated by py2coq on    *)
(*  every run (PV.Gen.C10BSrc.slice_body), interpreted by MiniPy.Interp with the torch calls given    *)
(*  the meaning of MiniTorch.OpsC10 / OpsC10B (SrcRunB.extB).  Policy 'fixed' is tied for all inputs; *)
(*  the leading statements (empty input, lobe / window tests) for every policy.  See                  *)
(*  notes/C10_tie_report.md, section "Second tie".                                                    *)
(* ================================================================================================== *)
From PV Require C10.SrcRunB C10.TieBPrefix C10.TieBFixedTop Gen.C10BSrc.
From PV Require MiniTorch.OpsC10 MiniTorch.OpsC10B MiniTorch.ValueC10.

(* policy 'fixed': for every input tensor with at least two dimensions (any trailing sizes, any data), in_lens omitted
   or N lengths, every window type, validity setting, lobe size >= 0, T >= 1: the interpreted source returns exactly the
   (M, 2) windows tensor and the (M,) sources tensor of Model.slice_fixed (d3 repaired = /repo today) *)
Theorem c10_source_slice_fixed_is_model : forall N T rest data ol in_lens w vo lobe out,
  T <> 0%nat -> 0 <= lobe ->
  slice_fixed repaired N (Z.of_nat T) in_lens w vo lobe = Some out ->
  exists st, Interp.run SrcRunB.extB C10BSrc.slice_body
               (SrcRunB.slice_vars_raw (OpsC10.mkIT (N :: T :: rest) data) (option_map SrcRun.vec_tensor in_lens) ol
                                       TieBFixedTop.fixed_name (SrcRunB.wt_name w) vo lobe)
             = Interp.Ok (SrcRunB.slices_value out) st.
Proof. exact TieBFixedTop.fixed_tie. Qed.
Print Assumptions c10_source_slice_fixed_is_model.

(* composed with c10_fixed_windows_spec: purely about the interpreted source - it returns the unique list of windows
   the declarative spec of the fixed policy prescribes (arithmetic progression of starts, window size, kept iff the
   middle index lies before the sequence's length), in order, labelled by source *)
Theorem c10_source_slice_fixed_windows : forall N T in_lens ol w vo lobe,
  (1 <= T)%nat -> 0 <= lobe -> lens_ok N (Z.of_nat T) in_lens ->
  exists out st, Interp.run SrcRunB.extB C10BSrc.slice_body (SrcRunB.slice_vars T (InFixed N) in_lens ol w vo lobe)
                   = Interp.Ok (SrcRunB.slices_value out) st
                 /\ fixed_spec N (len_of (Z.of_nat T) in_lens) w vo lobe out.
Proof. exact TieBFixedTop.source_fixed_windows_spec. Qed.
Print Assumptions c10_source_slice_fixed_windows.

(* every policy (also unknown ones), ARBITRARY tensors: sequences of length 0 give an empty (0, 2) and an empty (0,)
   tensor before any other test (c10_empty_input_no_windows about the source) *)
Theorem c10_source_slice_empty : forall N rest data il ol policy wt vo lobe,
  exists st, Interp.run SrcRunB.extB C10BSrc.slice_body
               (SrcRunB.slice_vars_raw (OpsC10.mkIT (N :: 0%nat :: rest) data) il ol policy wt vo lobe)
             = Interp.Ok (Syntax.VTuple [ValueC10.enc10 (OpsC10B.empty [0; 2]%nat); ValueC10.enc10 (OpsC10B.empty [0%nat])]) st.
Proof. exact TieBFixedTop.slice_empty. Qed.
Print Assumptions c10_source_slice_empty.

(* every policy, arbitrary tensors: a negative lobe size / an unknown window type raises RuntimeError *)
Theorem c10_source_slice_raises_lobe : forall N T rest data il ol policy wt vo lobe, T <> 0%nat -> lobe < 0 ->
  exists st, Interp.run SrcRunB.extB C10BSrc.slice_body
               (SrcRunB.slice_vars_raw (OpsC10.mkIT (N :: T :: rest) data) il ol policy wt vo lobe)
             = Interp.Exc SrcRun.runtime_error st.
Proof. exact TieBFixedTop.slice_raises_lobe. Qed.
Print Assumptions c10_source_slice_raises_lobe.

Theorem c10_source_slice_raises_window : forall N T rest data il ol policy wt vo lobe, T <> 0%nat -> 0 <= lobe ->
  TieBPrefix.wt_ok wt = false ->
  exists st, Interp.run SrcRunB.extB C10BSrc.slice_body
               (SrcRunB.slice_vars_raw (OpsC10.mkIT (N :: T :: rest) data) il ol policy wt vo lobe)
             = Interp.Exc SrcRun.runtime_error st.
Proof. exact TieBFixedTop.slice_raises_window. Qed.
Print Assumptions c10_source_slice_raises_window.

(* non-vacuity: the interpreted source on the docstring's examples (T = 8, lobe 2), an 'ali' and a 'ref' call (executed,
   not yet tied), a rejected call *)
Example c10_source_slice_nonvacuous :
  SrcRunB.src_slice 8 (InFixed 1) None None Symmetric true 2 = Some (Some [((0, 5), 0); ((3, 8), 0)])
  /\ SrcRunB.src_slice 8 (InFixed 2) (Some [8; 5]) None Causal false 2
     = Some (Some [((-2, 1), 0); ((1, 4), 0); ((4, 7), 0); ((-2, 1), 1); ((1, 4), 1)])
  /\ SrcRunB.src_slice 5 (InAli [[1; 1; 2; 3; 3]; [4; 4; 5; 4; 4]]) (Some [5; 4]) None Symmetric true 1
     = Some (Some [((0, 5), 0); ((0, 4), 1)])
  /\ SrcRunB.src_slice 2 (InRef [[(1, 0, 3); (2, 3, 5)]; [(1, -1, 3); (2, 1, 2)]]) None None Symmetric true 0
     = Some (Some [((0, 3), 0); ((3, 5), 0); ((1, 2), 1)])
  /\ SrcRunB.src_slice 8 (InFixed 2) (Some [8; 5; 1]) None Future false 2 = Some None.
Proof. repeat split; vm_compute; reflexivity. Qed.

(* policy 'fixed', the raise path of the model: in_lens whose length is not N -> RuntimeError (slice_fixed = None) *)
From PV Require C10.TieBFixedRaise.
Theorem c10_source_slice_fixed_raises_in_lens : forall N T rest data ol ls w vo lobe,
  T <> 0%nat -> 0 <= lobe ->
  slice_fixed repaired N (Z.of_nat T) (Some ls) w vo lobe = None ->
  exists st, Interp.run SrcRunB.extB C10BSrc.slice_body
               (SrcRunB.slice_vars_raw (OpsC10.mkIT (N :: T :: rest) data) (Some (SrcRun.vec_tensor ls)) ol
                                       TieBFixedTop.fixed_name (SrcRunB.wt_name w) vo lobe)
             = Interp.Exc SrcRun.runtime_error st.
Proof. exact TieBFixedRaise.fixed_tie_raises. Qed.
Print Assumptions c10_source_slice_fixed_raises_in_lens.
