(* C10 - policy 'ali', part 1: what the tensor operations of the lobe code compute, position by position
   (variant without the negative-stop wrap-around).  Lists are presented as  map f (seq 0 NN). *)
From Coq Require Import List ZArith Bool Arith Lia Sorted.
From PV Require Import C10.Model C10.Spec C10.Lists.
Import ListNotations.
Local Open Scope Z_scope.

(* ---- valid_only: pair segment j with segment j + d of the same source ---- *)
Lemma ali_valid_fn : forall (fs fe fc : nat -> Z) NN wt lobe, 0 < lobe ->
  ali_lobes false (map fs (seq 0 NN)) (map fe (seq 0 NN)) (map fc (seq 0 NN)) wt true lobe
  = Some (map (fun j => ((fs j, fe (j + Z.to_nat ((b2z (do_left wt) + b2z (do_right wt)) * lobe))%nat), fc j))
              (filter (fun j => fc j =? fc (j + Z.to_nat ((b2z (do_left wt) + b2z (do_right wt)) * lobe))%nat)
                      (seq 0 (NN - Z.to_nat ((b2z (do_left wt) + b2z (do_right wt)) * lobe))))).
Proof.
  intros fs fe fc NN wt lobe Hl. unfold ali_lobes.
  destruct (lobe =? 0) eqn:E0; [apply Z.eqb_eq in E0; lia|].
  unfold zlen. rewrite map_length, seq_length.
  set (offs := (b2z (do_left wt) + b2z (do_right wt)) * lobe).
  assert (Hoffs : 0 <= offs) by (subst offs; destruct wt; cbn [b2z do_left do_right]; lia).
  unfold py_upto, py_from. cbn [andb].
  replace (Z.to_nat (Z.of_nat NN - offs)) with (NN - Z.to_nat offs)%nat by lia.
  rewrite !firstn_map_seq0, !skipn_map_seq0.
  replace (Nat.min (NN - Z.to_nat offs) NN) with (NN - Z.to_nat offs)%nat by lia.
  unfold bcast2. rewrite !map_length, !seq_length, Nat.eqb_refl.
  rewrite map2_map_map.
  unfold mask_index. rewrite !map_length, !seq_length, Nat.eqb_refl.
  rewrite !mask_select_filter.
  unfold stack3. rewrite !map_length, Nat.eqb_refl. cbn [andb].
  rewrite !combine_map_map. reflexivity.
Qed.

(* ---- not valid_only: the index-shifting loop ---- *)
Fixpoint sumk (f : nat -> Z) (n0 fuel : nat) : Z :=
  match fuel with O => 0 | S f' => f n0 + sumk f (S n0) f' end.
(* does position j have a same-source neighbour k places to the left / right? *)
Definition dlf (fc : nat -> Z) (k j : nat) : Z :=
  if (k <=? j)%nat && (fc j =? fc (j - k)%nat) then 1 else 0.
Definition drf (fc : nat -> Z) (NN k j : nat) : Z :=
  if (j + k <? NN)%nat && (fc (j + k)%nat =? fc j) then 1 else 0.

Definition offs_fn (fc : nat -> Z) (NN n0 : nat) : list Z :=
  map (fun i => b2z (fc (i + n0)%nat =? fc i)) (seq 0 (NN - n0)).

Lemma sub_from_fn : forall fc NN n0 (fS : nat -> Z),
  sub_from (Z.of_nat n0) (map fS (seq 0 NN)) (offs_fn fc NN n0)
  = Some (map (fun j => fS j - dlf fc n0 j) (seq 0 NN)).
Proof.
  intros fc NN n0 fS. unfold sub_from, py_from, offs_fn. rewrite Nat2Z.id, skipn_map_seq0, firstn_map_seq0.
  unfold bcast_to. rewrite !map_length, !seq_length, Nat.eqb_refl. f_equal.
  rewrite map2_map_map.
  destruct (le_lt_dec n0 NN) as [H|H].
  - rewrite (seq_split n0 NN H), map_app. replace (Nat.min n0 NN) with n0 by lia. f_equal.
    + apply map_ext_in. intros j Hj. apply in_seq in Hj. unfold dlf.
      destruct (Nat.leb_spec n0 j); [lia|]. cbn. lia.
    + rewrite (map_seq_shift _ _ 0 n0 (NN - n0)). apply map_ext_in. intros i _. unfold dlf, b2z.
      destruct (Nat.leb_spec n0 (i + n0)); [|lia]. replace (i + n0 - n0)%nat with i by lia. cbn [andb].
      destruct (fc (i + n0)%nat =? fc i); reflexivity.
  - replace (NN - n0)%nat with 0%nat by lia. replace (Nat.min n0 NN) with NN by lia. cbn [seq map]. rewrite app_nil_r.
    apply map_ext_in. intros j Hj. apply in_seq in Hj. unfold dlf.
    destruct (Nat.leb_spec n0 j); [lia|]. cbn. lia.
Qed.

Lemma add_upto_fn : forall fc NN n0 (fE : nat -> Z),
  add_upto false (Z.of_nat NN - Z.of_nat n0) (map fE (seq 0 NN)) (offs_fn fc NN n0)
  = Some (map (fun j => fE j + drf fc NN n0 j) (seq 0 NN)).
Proof.
  intros fc NN n0 fE. unfold add_upto, py_upto, offs_fn. cbn [andb].
  replace (Z.to_nat (Z.of_nat NN - Z.of_nat n0)) with (NN - n0)%nat by lia.
  rewrite firstn_map_seq0. replace (Nat.min (NN - n0) NN) with (NN - n0)%nat by lia.
  unfold bcast_to. rewrite !map_length, !seq_length, Nat.eqb_refl. f_equal.
  rewrite map2_map_map, skipn_map_seq0.
  rewrite (seq_split (NN - n0) NN) by lia. rewrite map_app. f_equal.
  - apply map_ext_in. intros j Hj. apply in_seq in Hj. unfold drf, b2z.
    destruct (Nat.ltb_spec (j + n0) NN); [|lia]. cbn [andb]. destruct (fc (j + n0)%nat =? fc j); reflexivity.
  - rewrite (map_seq_shift _ _ 0 (NN - n0) (NN - (NN - n0))). apply map_ext_in. intros i _. unfold drf.
    destruct (Nat.ltb_spec (i + (NN - n0) + n0) NN); [lia|]. cbn. lia.
Qed.

Lemma ali_loop_fn : forall fc NN doL doR fuel n0 (fS fE : nat -> Z),
  ali_loop false fuel (Z.of_nat n0) (map fc (seq 0 NN)) doL doR (map fS (seq 0 NN)) (map fE (seq 0 NN))
  = Some (map (fun j => fS j - (if doL then sumk (fun k => dlf fc k j) n0 fuel else 0)) (seq 0 NN),
          map (fun j => fE j + (if doR then sumk (fun k => drf fc NN k j) n0 fuel else 0)) (seq 0 NN)).
Proof.
  intros fc NN doL doR fuel; induction fuel as [|fuel IH]; intros n0 fS fE.
  - cbn [ali_loop sumk]. do 2 f_equal; apply map_ext; intros; destruct doL, doR; lia.
  - cbn [ali_loop]. unfold zlen. rewrite map_length, seq_length.
    assert (Hoffs : bcast2 (fun a b => b2z (a =? b)) (py_from (Z.of_nat n0) (map fc (seq 0 NN)))
                           (py_upto false (Z.of_nat NN - Z.of_nat n0) (map fc (seq 0 NN)))
                    = Some (offs_fn fc NN n0)).
    { unfold py_from, py_upto, offs_fn. cbn [andb]. rewrite Nat2Z.id.
      replace (Z.to_nat (Z.of_nat NN - Z.of_nat n0)) with (NN - n0)%nat by lia.
      rewrite firstn_map_seq0, skipn_map_seq0. replace (Nat.min (NN - n0) NN) with (NN - n0)%nat by lia.
      unfold bcast2. rewrite !map_length, !seq_length, Nat.eqb_refl. now rewrite map2_map_map. }
    rewrite Hoffs.
    replace (Z.of_nat n0 + 1) with (Z.of_nat (S n0)) by lia.
    destruct doL, doR; rewrite ?sub_from_fn, ?add_upto_fn, IH; cbn [sumk];
      do 2 f_equal; apply map_ext; intros; lia.
Qed.

Lemma sumk_dl_bound : forall fc j fuel n0,
  0 <= sumk (fun k => dlf fc k j) n0 fuel <= Z.max 0 (Z.of_nat j + 1 - Z.of_nat n0).
Proof.
  intros fc j fuel; induction fuel as [|fuel IH]; intros n0; cbn [sumk]; [lia|].
  specialize (IH (S n0)). unfold dlf at 1 3.
  destruct (Nat.leb_spec n0 j); cbn [andb]; [destruct (fc j =? fc (j - n0)%nat)|]; lia.
Qed.

Lemma sumk_dr_bound : forall fc NN j fuel n0,
  0 <= sumk (fun k => drf fc NN k j) n0 fuel <= Z.max 0 (Z.of_nat NN - Z.of_nat j - Z.of_nat n0).
Proof.
  intros fc NN j fuel; induction fuel as [|fuel IH]; intros n0; cbn [sumk]; [lia|].
  specialize (IH (S n0)). unfold drf at 1 3.
  destruct (Nat.ltb_spec (j + n0) NN); cbn [andb]; [destruct (fc (j + n0)%nat =? fc j)|]; lia.
Qed.

Lemma index_sel_fn : forall (f : nat -> Z) NN idx, Forall (fun i => 0 <= i < Z.of_nat NN) idx ->
  index_sel (map f (seq 0 NN)) idx = Some (map (fun i => f (Z.to_nat i)) idx).
Proof.
  intros f NN idx H; induction H as [|i idx Hi _ IH]; [reflexivity|].
  cbn [index_sel map]. rewrite IH. unfold index1, zlen. rewrite map_length, seq_length.
  destruct (Z.leb_spec 0 i); [|lia]. destruct (Z.ltb_spec i (Z.of_nat NN)); [|lia]. cbn [andb].
  rewrite nth_map_seq0 by lia. reflexivity.
Qed.

Definition cl_of (fc : nat -> Z) (wt : wtype) (lobe : Z) (j : nat) : Z :=
  if do_left wt then sumk (fun k => dlf fc k j) 1 (Z.to_nat lobe) else 0.
Definition cr_of (fc : nat -> Z) (NN : nat) (wt : wtype) (lobe : Z) (j : nat) : Z :=
  if do_right wt then sumk (fun k => drf fc NN k j) 1 (Z.to_nat lobe) else 0.

Lemma ali_nv_fn : forall (fs fe fc : nat -> Z) NN wt lobe, 0 < lobe ->
  ali_lobes false (map fs (seq 0 NN)) (map fe (seq 0 NN)) (map fc (seq 0 NN)) wt false lobe
  = Some (map (fun j => ((fs (Z.to_nat (Z.of_nat j - cl_of fc wt lobe j)),
                          fe (Z.to_nat (Z.of_nat j + cr_of fc NN wt lobe j))), fc j)) (seq 0 NN)).
Proof.
  intros fs fe fc NN wt lobe Hl. unfold ali_lobes.
  destruct (lobe =? 0) eqn:E0; [apply Z.eqb_eq in E0; lia|].
  unfold zlen. rewrite map_length, seq_length.
  assert (Har : arange 0 (Z.of_nat NN) 1 = map (fun j => Z.of_nat j) (seq 0 NN)).
  { unfold arange. rewrite Z.div_1_r. replace (Z.to_nat (Z.of_nat NN - 0 + 1 - 1)) with NN by lia.
    apply map_ext. intros; lia. }
  rewrite Har. change 1 with (Z.of_nat 1) at 1.
  rewrite ali_loop_fn.
  fold (cl_of fc wt lobe). fold (cr_of fc NN wt lobe).
  rewrite (index_sel_fn fs NN), (index_sel_fn fe NN).
  - unfold stack3. rewrite !map_length, !seq_length, Nat.eqb_refl. cbn [andb].
    rewrite !map_map, !combine_map_map. reflexivity.
  - rewrite Forall_forall. intros i Hi. apply in_map_iff in Hi as (j & Hj & Hin). apply in_seq in Hin. subst i.
    pose proof (sumk_dr_bound fc NN j (Z.to_nat lobe) 1). destruct (do_right wt); lia.
  - rewrite Forall_forall. intros i Hi. apply in_map_iff in Hi as (j & Hj & Hin). apply in_seq in Hin. subst i.
    pose proof (sumk_dl_bound fc j (Z.to_nat lobe) 1). destruct (do_left wt); lia.
Qed.
