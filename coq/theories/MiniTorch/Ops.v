(* MiniTorch — the meaning given to the handful of torch operations that occur in translated
   tensor code (first user: C18, `time_distributed_return`).  DEFINITIONS ONLY; the algebra is
   in Lemmas.v, the encoding of tensors as MiniPy values in Value.v.

   Numbers are exact rationals [Q] (DESIGN.md section 3): IEEE rounding, dtypes and devices are
   not modelled.  A tensor is (shape, row-major flat data), any number of dimensions; the
   operations below are defined on the dimensionalities stated with each of them and return
   [None] outside that domain (the unit's [ext] turns [None] into [Stuck], so a tie lemma about
   a run that leaves the domain cannot be proved: fail-closed).

   Each definition quotes the sentence of the torch documentation (2.x) it models.  This file
   is TRUSTED by every tie that uses it; it is exercised on every run by the harness-side
   `src_*_check` (CPython/torch vs the interpreted source on the same inputs). *)
From Coq Require Import List ZArith QArith Bool Arith.
Import ListNotations.
Local Open Scope Q_scope.

Record tens := mkTens { tshape : list nat; tdata : list Q }.

(* row-major access to a matrix with [m] columns; a position outside the buffer reads 0 *)
Definition getm (m : nat) (x : tens) (i j : nat) : Q := nth (i * m + j)%nat (tdata x) 0.
Definition get2 (x : tens) (i j : nat) : Q := getm (nth 1 (tshape x) 0%nat) x i j.

(* the vector (f 0, ..., f (n-1)) and the n x m matrix (f i j), row-major *)
Definition tab1 (n : nat) (f : nat -> Q) : tens := mkTens [n] (map f (seq 0 n)).
Definition tab2 (n m : nat) (f : nat -> nat -> Q) : tens :=
  mkTens [n; m] (flat_map (fun i => map (f i) (seq 0 m)) (seq 0 n)).

(* element-wise map: shape unchanged *)
Definition tmap (f : Q -> Q) (x : tens) : tens := mkTens (tshape x) (map f (tdata x)).

(* sums are kept in lowest terms ([Qred q == q]) so that long sums stay small *)
Definition qsum (l : list Q) : Q := fold_right (fun a b => Qred (a + b)) 0 l.
Fixpoint qpow (g : Q) (n : nat) : Q := match n with O => 1 | S n' => Qred (g * qpow g n') end.
Definition qmax (a b : Q) : Q := if Qle_bool a b then b else a.

(* Tensor.dim(): "Returns the number of dimensions of self tensor." *)
Definition dim (x : tens) : nat := length (tshape x).

(* a Python dimension argument for D dimensions: "dim value within the range [-D, D)";
   a negative one counts from the end *)
Definition wrap_dim (D : nat) (d : Z) : option nat :=
  if ((- Z.of_nat D <=? d) && (d <? Z.of_nat D))%Z
  then Some (Z.to_nat (if (d <? 0)%Z then d + Z.of_nat D else d)%Z)
  else None.

(* Tensor.size(dim): "Returns the size of the self tensor ... If dim is specified, returns an
   int holding the size of that dimension."  None: dimension out of range (torch: IndexError) *)
Definition size (x : tens) (d : Z) : option nat :=
  option_map (fun k => nth k (tshape x) 0%nat) (wrap_dim (dim x) d).

(* torch.arange(end) with an integer end >= 0: "Returns a 1-D tensor of size ceil((end - start) /
   step) with values from the interval [start, end) taken with common difference step beginning
   from start" (start = 0, step = 1): 0, 1, ..., end - 1.  The keyword arguments device= and
   dtype= do not change the VALUES as long as dtype represents them exactly (every float dtype
   does for end <= 2^11 (half), 2^24 (float), 2^53 (double)); they are ignored.
   None: negative end (torch raises). *)
Definition arange (n : Z) : option tens :=
  if (n <? 0)%Z then None else Some (tab1 (Z.to_nat n) (fun i => inject_Z (Z.of_nat i))).

(* Tensor.unsqueeze(dim): "Returns a new tensor with a dimension of size one inserted at the
   specified position. ... A dim value within the range [-input.dim() - 1, input.dim() + 1) can
   be used.  Negative dim will correspond to unsqueeze() applied at dim = dim + input.dim() + 1."
   The row-major data are unchanged. *)
Definition unsqueeze (x : tens) (d : Z) : option tens :=
  match wrap_dim (S (dim x)) d with
  | Some k => Some (mkTens (firstn k (tshape x) ++ 1%nat :: skipn k (tshape x)) (tdata x))
  | None => None
  end.

(* Broadcasting semantics ("Two tensors are broadcastable if ... when iterating over the
   dimension sizes, starting at the trailing dimension, the dimension sizes must either be
   equal, one of them is 1, or one of them does not exist"; the result size along a dimension is
   the size that is not 1 - the doc's "max of the sizes", except that torch expands the size-1
   side also against an empty one: (0, 1) gives 0),
   for operands of AT MOST TWO dimensions.  A missing leading dimension counts as size 1; along
   a dimension of size 1 the single element is repeated. *)
Definition as2 (x : tens) : option (nat * nat) :=
  match tshape x with
  | [] => Some (1, 1)%nat
  | [m] => Some (1, m)%nat
  | [n; m] => Some (n, m)
  | _ => None
  end.

Definition bdim (a b : nat) : option nat :=
  if (a =? b)%nat then Some a else if (a =? 1)%nat then Some b else if (b =? 1)%nat then Some a else None.

Definition bidx (n i : nat) : nat := if (n =? 1)%nat then 0%nat else i.

Definition broadcast2 (f : Q -> Q -> Q) (a b : tens) : option tens :=
  match as2 a, as2 b with
  | Some (na, ma), Some (nb, mb) =>
      match bdim na nb, bdim ma mb with
      | Some n, Some m =>
          Some (mkTens (skipn (2 - Nat.max (dim a) (dim b)) [n; m])
                  (tdata (tab2 n m (fun i j => f (getm ma a (bidx na i) (bidx ma j))
                                                 (getm mb b (bidx nb i) (bidx mb j))))))
      | _, _ => None
      end
  | _, _ => None
  end.

(* `a - b` on tensors = torch.sub(a, b): "Subtracts other ... from input", with broadcasting *)
Definition sub (a b : tens) : option tens := broadcast2 Qminus a b.

(* Tensor.clamp_min(min) = torch.clamp(input, min=min): "Clamps all elements in input into the
   range [min, max]": y_i = max(x_i, min); any number of dimensions *)
Definition clamp_min (x : tens) (c : Q) : tens := tmap (qmax c) x.

(* torch.pow(self: float, exponent: Tensor): "self is a scalar float value, and exponent is a
   tensor.  The returned tensor out is of the same shape as exponent.  The operation applied is
   out_i = self ^ exponent_i".  Modelled ONLY for exponents that are non-negative integers
   (None otherwise): then self ^ k is the k-fold product, and self ^ 0 = 1 also for self = 0
   (IEEE pow(x, +-0) = 1 for every x, which torch follows). *)
Definition nat_of_q (q : Q) : option nat :=
  let q' := Qred q in
  if ((Zpos (Qden q') =? 1) && (0 <=? Qnum q'))%Z then Some (Z.to_nat (Qnum q')) else None.

Definition is_nat_q (q : Q) : bool := match nat_of_q q with Some _ => true | None => false end.

Definition pow_scalar (g : Q) (e : tens) : option tens :=
  if forallb is_nat_q (tdata e)
  then Some (tmap (fun q => match nat_of_q q with Some k => qpow g k | None => 0 end) e)
  else None.

(* Tensor.tril() / Tensor.triu() with diagonal = 0 on a matrix: "Returns the lower (upper)
   triangular part of the matrix (2-D tensor) ..., the other elements of the result tensor out
   are set to 0.  The lower (upper) triangular part of the matrix is defined as the elements on
   and below (above) the diagonal."  Not modelled for batches (None); torch raises below 2-D. *)
Definition tril (x : tens) : option tens :=
  match tshape x with
  | [n; m] => Some (tab2 n m (fun i j => if (j <=? i)%nat then getm m x i j else 0))
  | _ => None
  end.

Definition triu (x : tens) : option tens :=
  match tshape x with
  | [n; m] => Some (tab2 n m (fun i j => if (i <=? j)%nat then getm m x i j else 0))
  | _ => None
  end.

(* torch.matmul(input, other): "If both tensors are 2-dimensional, the matrix-matrix product is
   returned": (n x k) @ (k x m) -> n x m, out[i, j] = sum_l input[i, l] * other[l, j].
   None: other dimensionalities (not modelled) or mismatching inner sizes (torch raises). *)
Definition matmul (a b : tens) : option tens :=
  match tshape a, tshape b with
  | [n; k], [k'; m] =>
      if (k =? k')%nat
      then Some (tab2 n m (fun i j => qsum (map (fun l => getm k a i l * getm m b l j) (seq 0 k))))
      else None
  | _, _ => None
  end.
