(* C06 — the in-range hypothesis of the source tie holds on every buffer set the validator [TieSafe.safe_okb] accepts:
   the nodes the two-path descent reaches are the nodes [Spec.level] enumerates. *)
From Coq Require Import List ZArith Bool Arith Lia ZifyBool ZifyNat.
From PV Require Import C06.Model C06.Spec C06.Proofs C06.TieSafe C06.TieSrc.
Import ListNotations.
Local Open Scope Z_scope.

Section Safe.
  Variables (b : bufs) (sh : shape).
  Hypothesis Hlens : lens_ok b sh = true.
  Hypothesis Hs : forall d nd, (d < order sh)%nat -> In nd (level b sh d) -> node_safe b sh d nd = true.

  Definition InLev (k : nat) (d : Z) : Prop := exists key, In (key, d) (level b sh k).
  Definition PathOK (k : nat) (p : Z * bool) : Prop := exists k', (k' <= k)%nat /\ InLev k' (fst p).

  Lemma lev_facts k d : (k < order sh)%nat -> InLev k d ->
    0 <= d < psize b sh /\
    ((k < order sh - 1)%nat ->
       d + 1 < osize b /\ NoDup (map (idat b sh) (cands b sh d)) /\
       (maxdesc sh = 0%nat \/ (usize sh <= zget (offsets b) d 0 + d /\ usize sh <= psize b sh - 1))).
  Proof.
    intros Hk (key & Hin). pose proof (Hs k (key, d) Hk Hin) as H. unfold node_safe in H. cbn [snd] in H.
    apply andb_true_iff in H as [H H3]. apply andb_true_iff in H as [H1 H2]. split; [lia|].
    intros Hi. replace (Nat.ltb k (order sh - 1)) with true in H3 by (symmetry; apply Nat.ltb_lt; exact Hi).
    apply andb_true_iff in H3 as [H3 H5]. apply andb_true_iff in H3 as [H3 H4].
    split; [lia|]. split; [apply nodupb_NoDup; exact H4|].
    apply orb_true_iff in H5 as [H5|H5]; [left; apply Nat.eqb_eq; exact H5|right; lia].
  Qed.

  Lemma lev_ext k d tok j : (k < order sh - 1)%nat -> InLev k d ->
    ext b sh (d, true) tok = (j, true) -> InLev (S k) j.
  Proof.
    intros Hk HL He. destruct (lev_facts k d ltac:(lia) HL) as [_ H]. destruct (H Hk) as (_ & Hnd & _).
    destruct (ext_found b sh d tok j Hnd He) as [Hin _]. destruct HL as (key & Hkey).
    exists (key ++ [idat b sh j]). cbn [level]. apply in_flat_map. exists (key, d). split; [exact Hkey|].
    unfold kids. cbn [fst snd]. apply in_map_iff. exists j. split; [reflexivity|exact Hin].
  Qed.

  Lemma ext_fst_false p tok : snd (ext b sh p tok) = false -> fst (ext b sh p tok) = fst p.
  Proof. unfold ext. cbn [fst snd]. intros ->. reflexivity. Qed.

  Lemma path_ext k p tok : (k < order sh - 1)%nat -> PathOK k p -> PathOK (S k) (ext b sh p tok).
  Proof.
    intros Hk (k' & Hk' & HL). destruct (ext b sh p tok) as [j f'] eqn:E. destruct f'.
    - pose proof (ext_true_inv b sh p tok j E) as Hp. destruct p as [d f]. cbn [snd fst] in *. subst f.
      exists (S k'). split; [lia|]. cbn [fst]. apply (lev_ext k' d tok j); [lia|exact HL|exact E].
    - exists k'. split; [lia|]. pose proof (ext_fst_false p tok) as H. rewrite E in H. cbn [fst snd] in H.
      rewrite H by reflexivity. exact HL.
  Qed.

  Lemma lens_facts : zlen (ids b) = psize b sh - usize sh /\ zlen (logps b) = psize b sh /\ zlen (logbs b) = osize b.
  Proof. unfold lens_ok in Hlens. lia. Qed.

  Lemma path_lane_safe k p tok n is_n : (k < order sh - 1)%nat -> PathOK k p -> lane_safe b sh n p tok is_n.
  Proof.
    intros Hk HP. pose proof HP as (k' & Hk' & HL).
    destruct (lev_facts k' (fst p) ltac:(lia) HL) as [Hd H]. destruct (H ltac:(lia)) as (HdO & _ & HU).
    destruct lens_facts as (Li & Lp & Lb).
    unfold lane_safe. cbv zeta. split; [lia|]. split; [exact HdO|]. split.
    - intros kk Hkk. unfold st_of. destruct HU as [HU|HU]; lia.
    - pose proof (path_ext k p tok Hk HP) as (k2 & Hk2 & HL2).
      destruct (lev_facts k2 _ ltac:(lia) HL2) as [Hd2 _].
      destruct is_n; [lia|]. intros _. lia.
  Qed.

  Lemma dsafe_ok hidx : forall r (k : nat) s,
    (k + length r = order sh - 1)%nat -> PathOK k (dn s) -> PathOK k (dp s) ->
    dsafe b sh hidx (Z.of_nat k + 1) r s.
  Proof.
    induction r as [|tn r IH]; intros k s Hk Hn Hp; [exact I|].
    cbn [dsafe length] in *. split; [apply (path_lane_safe k); [lia|exact Hn]|].
    split; [apply (path_lane_safe k); [lia|exact Hp]|].
    replace (Z.of_nat k + 1 + 1) with (Z.of_nat (S k) + 1) by lia. apply IH; [lia| |].
    - unfold step. cbn [dn]. apply path_ext; [lia|exact Hn].
    - unfold step. cbn [dp]. apply path_ext; [lia|exact Hp].
  Qed.

  Lemma root_lev x : 0 <= x < nroots sh -> InLev 0 x.
  Proof.
    intros Hx. exists [x]. cbn [level]. apply in_map_iff. exists x. split; [reflexivity|].
    unfold zrange. apply in_map_iff. exists (Z.to_nat x). split; [lia|]. apply in_seq. lia.
  Qed.

  Lemma lookup1_safe_ok hidx w v : (2 <= order sh)%nat -> length w = (order sh - 1)%nat ->
    0 <= last w 0 < nroots sh -> 0 <= v < vocab sh -> lookup1_safe b sh hidx w v.
  Proof.
    intros Ho Hl Hlast Hv.
    assert (Hh : hd 0 (rev w) = last w 0).
    { destruct w as [|x w] using rev_ind; [reflexivity|]. rewrite rev_app_distr, last_last. reflexivity. }
    assert (Hv' : 0 <= v < nroots sh) by (unfold nroots, shiftz; destruct (shiftb _ _); lia).
    unfold lookup1_safe. rewrite Hh. split.
    - destruct (lev_facts 0 (last w 0) ltac:(lia) (root_lev _ Hlast)) as [_ H]. destruct (H ltac:(lia)) as (H1 & _).
      destruct lens_facts as (_ & _ & Lb). lia.
    - change 1 with (Z.of_nat 0 + 1). apply dsafe_ok.
      + rewrite rev_length. lia.
      + exists 0%nat. split; [lia|]. unfold init_st. cbn [dn fst]. apply root_lev. exact Hv'.
      + exists 0%nat. split; [lia|]. unfold init_st. cbn [dp fst]. rewrite Hh. apply root_lev. exact Hlast.
  Qed.
End Safe.

Theorem safe_okb_sound b sh : safe_okb b sh = true ->
  lens_ok b sh = true /\ (1 <= order sh)%nat /\ nroots sh <= zlen (logps b) /\
  Z.of_nat (maxdesc sh) <= vocab sh + 1 /\
  forall hidx w v, (2 <= order sh)%nat -> length w = (order sh - 1)%nat ->
    0 <= last w 0 < nroots sh -> 0 <= v < vocab sh -> lookup1_safe b sh hidx w v.
Proof.
  unfold safe_okb. intros H.
  apply andb_true_iff in H as [H Hlv]. apply andb_true_iff in H as [H HS]. apply andb_true_iff in H as [H Hroots].
  apply andb_true_iff in H as [Hlens Hord].
  split; [exact Hlens|]. split; [apply Nat.leb_le; exact Hord|]. split; [lia|]. split; [lia|].
  intros hidx w v. apply lookup1_safe_ok; [exact Hlens|].
  intros d nd Hd Hin. rewrite forallb_forall in Hlv. specialize (Hlv d ltac:(apply in_seq; lia)).
  rewrite forallb_forall in Hlv. apply Hlv. exact Hin.
Qed.
