(* C03, second tie - infrastructure of the source tie of `hard_optimal_completion_distillation_loss`: what reaches
   SrcRunB.ext03B call by call (its own vocabulary, and the calls it passes on to C03.SrcRun.ext03_oc), and the tactics of the
   symbolic run for that environment.  No statement about the source itself here. *)
From Coq Require Import ZArith QArith List String Bool Arith Lia ZifyBool ZifyNat.
From PV Require Import MiniPy.Syntax MiniPy.Interp MiniPy.Lemmas MiniTorch.Ops MiniTorch.Lemmas MiniTorch.OpsC07 MiniTorch.LemmasC07
  MiniTorch.OpsC01 MiniTorch.LemmasC01 MiniTorch.OpsC03 MiniTorch.LemmasC03 MiniTorch.OpsC03B MiniTorch.LemmasC03B.
From PV Require Import Gen.C03Src Gen.C03BSrc C01.SrcRun C01.TieLib C03.SrcRun C03.TieLib C03.TieOcLib C03.SrcRunB.
Import ListNotations.
Local Open Scope string_scope.

#[local] Arguments dec01 : simpl never.
#[local] Arguments ext01 : simpl never.
#[local] Arguments ext03 : simpl never.
#[local] Arguments ext03_sm : simpl never.
#[local] Arguments ext03_oc : simpl never.
#[local] Arguments enc_b : simpl never.
#[local] Arguments enc_i : simpl never.
#[local] Arguments enc_x : simpl never.
#[local] Arguments call_body_oc : simpl never.

Lemma dec01_none : dec01 VNone = None.  Proof. reflexivity. Qed.
Lemma dec01_q q : dec01 (VQ q) = None.  Proof. reflexivity. Qed.

Section ExtLemmas.
  Variable lsm : list fx -> list Q.
  Notation ext := (ext03B lsm).
  Ltac bridge := unfold ext03B, ext03B_new; cbn; rewrite ?dec01_enc_i, ?dec01_enc_x, ?dec01_enc_b, ?dec01_int, ?dec01_none, ?dec01_q; cbn.
  Ltac bridge_oc := unfold ext03_oc, ext03_oc_new; cbn; rewrite ?dec01_enc_i, ?dec01_enc_x, ?dec01_enc_b, ?dec01_int, ?dec01_none, ?dec01_q; cbn.
  Ltac bridge_sm := unfold ext03_sm, ext03_new; cbn; rewrite ?dec01_enc_i, ?dec01_enc_x, ?dec01_enc_b, ?dec01_int, ?dec01_none, ?dec01_q; cbn.
  Ltac bridge_01 := unfold ext01, ext01_ops; cbn; rewrite ?dec01_enc_i, ?dec01_enc_x, ?dec01_enc_b, ?dec01_int, ?dec01_none, ?dec01_q; cbn.

  (* ---- its own vocabulary ---- *)
  Lemma extb_oc ref hyp eos incl bf qi qd qs pad excl warn st :
    ext "optimal_completion" [ref; hyp]
      [("eos", eos); ("include_eos", incl); ("batch_first", bf); ("ins_cost", qi); ("del_cost", qd); ("sub_cost", qs);
       ("padding", pad); ("exclude_last", excl); ("warn", warn)] st =
    call_body_oc ([("ref", ref); ("hyp", hyp); ("eos", eos); ("include_eos", incl); ("batch_first", bf); ("ins_cost", qi);
                   ("del_cost", qd); ("sub_cost", qs); ("padding", pad); ("exclude_last", excl); ("warn", warn)] ++ globals01) st.
  Proof. reflexivity. Qed.

  Lemma extb_size_i x d st : ext "$method.size" [enc_i x; VInt d] [] st =
    match size_dim x d with Some n => Ok (VInt (Z.of_nat n)) st | None => oob "size" end.
  Proof. bridge. reflexivity. Qed.
  Lemma extb_size_x x d st : ext "$method.size" [enc_x x; VInt d] [] st =
    match size_dim x d with Some n => Ok (VInt (Z.of_nat n)) st | None => oob "size" end.
  Proof. bridge. reflexivity. Qed.
  Lemma extb_shape3_init a b c st :
    ext "$getitem" [VTuple [VInt a; VInt b; VInt c]; VTuple [VStr "$slice"; VNone; VInt (-1); VNone]] [] st = Ok (VTuple [VInt a; VInt b]) st.
  Proof. reflexivity. Qed.
  Lemma extb_expand4_x x a b c d st : ext "$method.expand" [enc_x x; VInt a; VInt b; VInt c; VInt d] [] st =
    ret01 "expand4" (option_map AX (expand4 FNaN x a b c d)) st.
  Proof. bridge. reflexivity. Qed.
  Lemma extb_contiguous_x x st : ext "$method.contiguous" [enc_x x] [] st = Ok (enc_x x) st.
  Proof. bridge. reflexivity. Qed.
  Lemma extb_flatten2_x x s e st : ext "$method.flatten" [enc_x x; VInt s; VInt e] [] st =
    ret01 "flatten" (option_map AX (flatten_range x s e)) st.
  Proof. bridge. reflexivity. Qed.
  Lemma extb_flatten0_i x st : ext "$method.flatten" [enc_i x] [] st = ret01 "flatten" (option_map AI (flatten_range x 0 (-1))) st.
  Proof. bridge. reflexivity. Qed.
  Lemma extb_ce x t w ign st :
    ext "torch.nn.functional.cross_entropy" [enc_x x; enc_i t] [("weight", weight_val w); ("ignore_index", VInt ign); ("reduction", VStr "none")] st =
    match cross_entropy_none lsm x t (option_map (fun wv => mkTn [List.length wv] wv) (option_map (map Fq) w)) ign with
    | Some (Some r) => Ok (enc_x r) st
    | Some None => Exc index_error st
    | None => oob "cross_entropy"
    end.
  Proof.
    destruct w as [wv|]; unfold weight_val.
    - unfold ext03B, ext03B_new. cbn. rewrite !dec01_enc_i, !dec01_enc_x. unfold dec_weight.
      change (enc_x {| shp := [Datatypes.length wv]; dat := map Fq wv |}) with (enc_x (mkTn [List.length wv] (map Fq wv))).
      rewrite dec01_enc_x. cbn [option_map]. rewrite map_length.
      assert (E : match enc_x (mkTn [List.length wv] (map Fq wv)) with VNone => Some None | _ => Some (Some (mkTn [List.length wv] (map Fq wv))) end
                  = Some (Some (mkTn [List.length wv] (map Fq wv)))) by reflexivity.
      reflexivity.
    - bridge. reflexivity.
  Qed.
  Lemma extb_view_as_x x y st : ext "$method.view_as" [enc_x x; enc_i y] [] st = ret01 "view_as" (option_map AX (view_as x (shp y))) st.
  Proof. bridge. reflexivity. Qed.
  Lemma extb_sum_dim_x x d st : ext "$method.sum" [enc_x x; VInt d] [] st = ret01 "sum(dim)" (option_map AX (sum_dim_f x d)) st.
  Proof. bridge. reflexivity. Qed.
  Lemma extb_sum_all_x x st : ext "$method.sum" [enc_x x] [] st = Ok (enc_x (sum_all_f x)) st.
  Proof. bridge. reflexivity. Qed.
  Lemma extb_mean_x x st : ext "$method.mean" [enc_x x] [] st = Ok (enc_x (mean_all_f x)) st.
  Proof. bridge. reflexivity. Qed.
  Lemma extb_invert x st : ext "$invert" [enc_b x] [] st = Ok (enc_b (not_b x)) st.
  Proof. bridge. reflexivity. Qed.
  Lemma extb_clamp_min x c st : ext "$method.clamp_min" [enc_i x; VInt c] [] st = Ok (enc_i (clamp_min_i x c)) st.
  Proof. bridge. reflexivity. Qed.
  Lemma extb_div_xi x y st : ext "operator" [VStr "truediv"; enc_x x; enc_i y] [] st = ret01 "truediv" (option_map AX (div_xi x y)) st.
  Proof. bridge. reflexivity. Qed.

  (* ---- passed on ---- *)
  Lemma extb_dim_x x st : ext "$method.dim" [enc_x x] [] st = Ok (VInt (Z.of_nat (List.length (shp x)))) st.
  Proof. bridge. bridge_oc. bridge_sm. bridge_01. reflexivity. Qed.
  Lemma extb_shape_x x st : ext "$attr.shape" [enc_x x] [] st = Ok (VTuple (map (fun n => VInt (Z.of_nat n)) (shp x))) st.
  Proof. bridge. bridge_oc. bridge_sm. bridge_01. reflexivity. Qed.
  Lemma extb_shape_i x st : ext "$attr.shape" [enc_i x] [] st = Ok (VTuple (map (fun n => VInt (Z.of_nat n)) (shp x))) st.
  Proof. bridge. bridge_oc. bridge_sm. bridge_01. reflexivity. Qed.
  Lemma extb_unsqueeze_x x d st : ext "$method.unsqueeze" [enc_x x; VInt d] [] st = ret01 "unsqueeze" (option_map AX (unsqueeze x d)) st.
  Proof. bridge. bridge_oc. bridge_sm. bridge_01. reflexivity. Qed.
  Lemma extb_cmp_eq x c st : ext "compare" [VStr "eq"; enc_i x; VInt c] [] st = Ok (enc_b (eq_s x c)) st.
  Proof. bridge. bridge_oc. bridge_sm. bridge_01. reflexivity. Qed.
  Lemma extb_masked_fill_0 x m st : ext "$method.masked_fill" [enc_x x; enc_b m; VQ 0] [] st =
    ret01 "masked_fill" (option_map AX (masked_fill x m (Fq 0))) st.
  Proof. bridge. bridge_oc. bridge_sm. reflexivity. Qed.
  Lemma extb_sum_b x d st : ext "$method.sum" [enc_b x; VInt d] [] st = ret01 "sum" (option_map AI (sum_dim_b x d)) st.
  Proof. bridge. apply exto_sum. Qed.
  Lemma extb_any_dim x d st : ext "$method.any" [enc_b x; VInt d] [] st = ret01 "any(dim)" (option_map AB (any_dim x d)) st.
  Proof. bridge. apply exto_any_dim. Qed.
End ExtLemmas.

#[local] Arguments ext03B : simpl never.

Lemma subscript_tuple_slice l a b c st : subscript (VTuple l) (VTuple [VStr "$slice"; a; b; c]) st = Stuck "subscript".
Proof. reflexivity. Qed.
Lemma binop_div_x_i t u st : binop_eval Div (enc_x t) (enc_i u) st = Stuck "truediv".
Proof. reflexivity. Qed.

(* comparisons of Python ints *)
Lemma cmp_eval_lt_int a b : cmp_eval Lt (VInt a) (VInt b) = Some (a <? b)%Z.
Proof.
  cbn. unfold Qcompare. cbn. rewrite !Z.mul_1_r. unfold Z.ltb. destruct (a ?= b)%Z; reflexivity.
Qed.
Lemma cmp_eval_ge_int a b : cmp_eval GtE (VInt a) (VInt b) = Some (b <=? a)%Z.
Proof.
  cbn. unfold Qcompare. cbn. rewrite !Z.mul_1_r. unfold Z.leb. rewrite (Z.compare_antisym a b). destruct (a ?= b)%Z; reflexivity.
Qed.

Create HintDb c03b discriminated.
#[export] Hint Rewrite lookup_update foreign_enc_i foreign_enc_b foreign_enc_x method_enc_i method_enc_b method_enc_x
  attribute_enc_i attribute_enc_x attribute_enc_b subscript_tuple_slice binop_div_x_i
  extb_oc extb_size_i extb_size_x extb_shape3_init extb_expand4_x extb_contiguous_x extb_flatten2_x extb_flatten0_i extb_ce
  extb_view_as_x extb_sum_dim_x extb_sum_all_x extb_mean_x extb_invert extb_clamp_min extb_div_xi
  extb_dim_x extb_shape_x extb_shape_i extb_unsqueeze_x extb_cmp_eq extb_masked_fill_0 extb_sum_b extb_any_dim : c03b.

Ltac evb := repeat (progress (cbn; autorewrite with c03b; look)).
Ltac normb :=
  cbn [shp dat];
  rewrite ?nats_eqb_refl, ?map_map, ?map_tab2, ?Nat2Z.id;
  rewrite ?size_dim_3_last, ?unsqueeze_3_2, ?expand4_rows, ?flatten_4_lead, ?flatten_3_all, ?view_as_3, ?eq_s_tab3, ?masked_fill_tab3,
    ?sum_dim_f_3, ?not_b_tab3, ?sum_dim_b_3, ?clamp_min_tab2, ?clamp_min_vec, ?div_xi_2, ?div_xi_1, ?any_dim_3,
    ?sum_dim_f_2_1, ?sum_dim_f_2_0, ?sum_dim_b_2_1, ?sum_dim_b_2_0;
  cbn [option_map ret01 enc01].
Ltac evnb := repeat (progress (evb; normb)).
Ltac asgb := assign3x ltac:(evnb; reflexivity).
Ltac ifstepb := ifstep3_t ltac:(evnb; reflexivity).
