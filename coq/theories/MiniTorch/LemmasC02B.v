(* MiniTorch, unit C02BSrc — the algebra of OpsC02B.v needed by the second C02 tie (no new definitions of meaning):
   rows of a flat list, Tensor.repeat on the two expansions of a 2-D reference, reshape / view of the ranks
   `minimum_error_rate_loss` meets, mean / sum on tabulated matrices, broadcasting a matrix against a column. *)
From Coq Require Import List ZArith QArith Bool Arith Lia.
From Coq Require String.
From PV Require Import MiniPy.Syntax MiniTorch.Ops MiniTorch.Lemmas MiniTorch.OpsC07 MiniTorch.LemmasC07 MiniTorch.OpsC01
  MiniTorch.LemmasC01 MiniTorch.OpsC02B.
Import ListNotations.
Local Open Scope nat_scope.

(* ---- rows ------------------------------------------------------------------------------------------------ *)
Definition rectw {X} (W : nat) (m : list (list X)) : Prop := forall row, List.In row m -> length row = W.

Lemma split_rows_length : forall {X} w n (l : list X), length (split_rows w n l) = n.
Proof. intros X w n. induction n as [|n IH]; intros l; cbn [split_rows length]; [reflexivity|now rewrite IH]. Qed.

Lemma split_rows_concat : forall {X} W (m : list (list X)), rectw W m -> split_rows W (length m) (concat m) = m.
Proof.
  intros X W m. induction m as [|row m IH]; intros H; [reflexivity|].
  cbn [length split_rows concat].
  assert (Hr : length row = W) by (apply H; now left).
  rewrite <- Hr, firstn_app, Nat.sub_diag, firstn_all, firstn_O, app_nil_r.
  rewrite skipn_app, Nat.sub_diag, skipn_all, skipn_O. cbn [app]. rewrite Hr. f_equal.
  apply IH. intros r Hin. apply H. now right.
Qed.

Lemma split_rows_1 : forall {X} (l : list X), split_rows 1 (length l) l = map (fun x => [x]) l.
Proof. intros X l. induction l as [|x l IH]; [reflexivity|]. cbn [length split_rows firstn skipn map]. now rewrite IH. Qed.

Lemma split_rows_map : forall {X Y} (f : X -> Y) w n (l : list X),
  split_rows w n (map f l) = map (map f) (split_rows w n l).
Proof.
  intros X Y f w n. induction n as [|n IH]; intros l; [reflexivity|].
  cbn [split_rows map]. now rewrite firstn_map, skipn_map, IH.
Qed.

Lemma concat_split_rows : forall {X} w n (l : list X), length l = n * w -> concat (split_rows w n l) = l.
Proof.
  intros X w n. induction n as [|n IH]; intros l H.
  - destruct l; [reflexivity|discriminate].
  - cbn [split_rows concat]. rewrite IH by (rewrite skipn_length; lia). apply firstn_skipn.
Qed.

Lemma length_concat_rect : forall {X} W (m : list (list X)), rectw W m -> length (concat m) = length m * W.
Proof.
  intros X W m. induction m as [|row m IH]; intros H; [reflexivity|].
  cbn [concat length]. rewrite app_length, IH by (intros r Hr; apply H; now right).
  rewrite (H row) by now left. lia.
Qed.

Lemma concat_concat_map : forall {X} (t : list (list (list X))), concat (map (@concat X) t) = concat (concat t).
Proof. intros X t. induction t as [|p t IH]; [reflexivity|]. cbn [map concat]. now rewrite concat_app, IH. Qed.

Lemma concat_rectw_tab2 : forall {X} (d : X) A B (m : list (list X)), length m = A -> rectw B m ->
  concat m = tab2 A B (fun i j => nth j (nth i m []) d).
Proof.
  intros X d A B m HA HB. subst A. induction m as [|row m IH]; [reflexivity|].
  cbn [concat length]. rewrite tab2_S. cbn [nth]. f_equal.
  - rewrite <- (HB row) by (now left). symmetry. clear. induction row as [|x row IH]; [reflexivity|].
    cbn [length seq map nth]. f_equal. rewrite <- seq_shift, map_map. exact IH.
  - apply IH. intros r Hr. apply HB. now right.
Qed.

Lemma rep_list_1 : forall {X} (l : list X), rep_list 1 l = l.
Proof. intros. unfold rep_list. cbn. apply app_nil_r. Qed.

Lemma rep_list_single : forall {X} k (x : X), rep_list k [x] = repeat x k.
Proof. intros X k x. unfold rep_list. induction k as [|k IH]; [reflexivity|]. cbn [repeat concat app]. now rewrite IH. Qed.

Lemma map_id_ext : forall {X} (f : X -> X) l, (forall x, f x = x) -> map f l = l.
Proof. intros X f l H. rewrite (map_ext f (fun x => x) H). apply map_id. Qed.

(* ---- Tensor.repeat on the two expansions of a 2-D reference ---------------------------------------------- *)
(* (N, 1, R).repeat(1, M, 1): every row M times *)
Lemma repeat3_rows : forall {X} N R M (m : list (list X)), length m = N -> rectw R m ->
  repeat3 (mkTn [N; 1; R] (concat m)) 1 (Z.of_nat M) 1 =
  Some (mkTn [N; M; R] (concat (concat (map (fun s => repeat s M) m)))).
Proof.
  intros X N R M m HN HR. subst N. unfold repeat3. cbn [shp dat].
  replace ((1 <? 0)%Z || (Z.of_nat M <? 0)%Z || (1 <? 0)%Z) with false
    by (symmetry; apply orb_false_iff; split; [apply orb_false_iff; split|]; apply Z.ltb_ge; lia).
  rewrite Nat2Z.id. change (Z.to_nat 1) with 1. rewrite !Nat.mul_1_l, !Nat.mul_1_r.
  rewrite (split_rows_concat R m HR).
  rewrite (map_id_ext (rep_list 1)) by apply rep_list_1.
  rewrite split_rows_1, map_map. rewrite rep_list_1.
  do 4 f_equal. apply map_ext. intros s. apply rep_list_single.
Qed.

(* (R, N, 1).repeat(1, 1, M): every entry M times *)
Lemma repeat3_entries : forall {X} R N M (m : list (list X)), length m = R -> rectw N m ->
  repeat3 (mkTn [R; N; 1] (concat m)) 1 1 (Z.of_nat M) =
  Some (mkTn [R; N; M] (concat (concat (map (fun row => map (fun x => repeat x M) row) m)))).
Proof.
  intros X R N M m HR HN. subst R. unfold repeat3. cbn [shp dat].
  replace ((1 <? 0)%Z || (1 <? 0)%Z || (Z.of_nat M <? 0)%Z) with false
    by (symmetry; apply orb_false_iff; split; [apply orb_false_iff; split|]; apply Z.ltb_ge; lia).
  rewrite Nat2Z.id. change (Z.to_nat 1) with 1. rewrite !Nat.mul_1_l, !Nat.mul_1_r.
  rewrite <- (length_concat_rect N m HN), split_rows_1, map_map.
  rewrite (map_ext (fun x => rep_list M [x]) (fun x => repeat x M)) by (intros; apply rep_list_single).
  rewrite split_rows_map. rewrite (split_rows_concat N m HN).
  rewrite (map_id_ext (rep_list 1)) by apply rep_list_1. rewrite rep_list_1. reflexivity.
Qed.

(* ---- reshape / view --------------------------------------------------------------------------------------- *)
Lemma view_3_tail : forall {X} A B C (d : list X), C <> 0 ->
  view (mkTn [A; B; C] d) [(-1)%Z; Z.of_nat C] = Some (mkTn [A * B; C] d).
Proof.
  intros X A B C d HC. unfold view, view_shape. cbn [shp dat existsb filter map].
  replace (Z.of_nat C <? -1)%Z with false by (symmetry; apply Z.ltb_ge; lia).
  replace (0 <=? Z.of_nat C)%Z with true by (symmetry; apply Z.leb_le; lia).
  replace (Z.of_nat C =? -1)%Z with false by (symmetry; apply Z.eqb_neq; lia).
  cbn [orb Z.ltb Z.leb Z.eqb Z.compare filter map length numel]. rewrite Nat2Z.id.
  replace (C =? 0) with false by (symmetry; apply Nat.eqb_neq; exact HC).
  replace (A * (B * C)) with ((A * B) * C) by lia. rewrite Nat.mod_mul by exact HC. cbn [Nat.eqb option_map].
  rewrite Nat.div_mul by exact HC. reflexivity.
Qed.

Lemma view_3_head : forall {X} A B C (d : list X), A <> 0 ->
  view (mkTn [A; B; C] d) [Z.of_nat A; (-1)%Z] = Some (mkTn [A; B * C] d).
Proof.
  intros X A B C d HA. unfold view, view_shape. cbn [shp dat existsb filter map].
  replace (Z.of_nat A <? -1)%Z with false by (symmetry; apply Z.ltb_ge; lia).
  replace (0 <=? Z.of_nat A)%Z with true by (symmetry; apply Z.leb_le; lia).
  replace (Z.of_nat A =? -1)%Z with false by (symmetry; apply Z.eqb_neq; lia).
  cbn [orb Z.ltb Z.leb Z.eqb Z.compare filter map length numel]. rewrite Nat2Z.id.
  replace (A =? 0) with false by (symmetry; apply Nat.eqb_neq; exact HA).
  replace (A * (B * C)) with ((B * C) * A) by lia. rewrite Nat.mod_mul by exact HA. cbn [Nat.eqb option_map].
  rewrite Nat.div_mul by exact HA. reflexivity.
Qed.

Lemma view_1_2 : forall {X} N M (d : list X),
  view (mkTn [N * M] d) [Z.of_nat N; Z.of_nat M] = Some (mkTn [N; M] d).
Proof.
  intros X N M d. unfold view, view_shape. cbn [shp dat existsb filter map].
  replace (Z.of_nat N <? -1)%Z with false by (symmetry; apply Z.ltb_ge; lia).
  replace (Z.of_nat M <? -1)%Z with false by (symmetry; apply Z.ltb_ge; lia).
  replace (0 <=? Z.of_nat N)%Z with true by (symmetry; apply Z.leb_le; lia).
  replace (0 <=? Z.of_nat M)%Z with true by (symmetry; apply Z.leb_le; lia).
  replace (Z.of_nat N =? -1)%Z with false by (symmetry; apply Z.eqb_neq; lia).
  replace (Z.of_nat M =? -1)%Z with false by (symmetry; apply Z.eqb_neq; lia).
  cbn [orb filter map length numel]. rewrite !Nat2Z.id, Nat.eqb_refl. reflexivity.
Qed.

(* ---- broadcasting a matrix against a column ------------------------------------------------------------- *)
Lemma broadcast_mat_col : forall {X Y W} (f : X -> Y -> W) dx dy A B g h,
  broadcast f dx dy (mkTn [A; B] (tab2 A B g)) (mkTn [A; 1] (map h (seq 0 A))) =
  Some (mkTn [A; B] (tab2 A B (fun i j => f (g i j) (h i)))).
Proof.
  intros. unfold broadcast. cbn [rank shp dat length Nat.max pad_shape Nat.sub repeat app bc_shape].
  rewrite bdim_refl, bdim_1_r. rewrite (bc_data_2 f dx dy A B A 1 A B) by (apply bdim_refl || apply bdim_1_r).
  do 2 f_equal. apply tab2_ext. intros i j Hi Hj. change (bidx 1 j) with 0.
  rewrite (bidx_same A i), (bidx_same B j) by assumption.
  replace (i * 1 + 0) with i by lia. now rewrite nth_tab2, nth_map_seq.
Qed.

(* ---- mean / sum ---------------------------------------------------------------------------------------- *)
Lemma mean_keep_rows : forall N M (g : nat -> nat -> fx),
  mean_keep (mkTn [N; M] (tab2 N M g)) 1 =
  Some (mkTn [N; 1] (map (fun n => fdiv (fsum (map (g n) (seq 0 M))) (z2f (Z.of_nat M))) (seq 0 N))).
Proof.
  intros N M g. unfold mean_keep. cbn [rank shp dat length].
  change (wrap_dim 2 1) with (Some 1).
  cbn [firstn skipn app extent nth inner outer numel]. rewrite tab2_col1. do 2 f_equal.
  apply map_ext_seq. intros n Hn. do 2 f_equal. unfold fibre. apply map_ext_seq. intros t Ht.
  replace ((n * M + t) * 1 + 0) with (n * M + t) by lia. now apply nth_tab2.
Qed.

Lemma numel_2 : forall N M, numel [N; M] = N * M.
Proof. reflexivity. Qed.
